(* Proofs/SizeDA.v — property C19 for DArray: with u = number of bits, s = number of select
   indexes (1, or 2 with select0), r = 1 if the rank directory is enabled,
   B = 8 * size_in_bytes() <= u (1 + 1.02 s + 0.26 r) + 4096.
   One select index over the strictly increasing positions P (all below u) costs
   64 |block_inventory| + 16 |subblock_inventory| + 64 |overflow_positions| + 264 bits.  Blocks of
   1024 consecutive positions cover disjoint, increasing ranges of [0, u): a dense block
   (span < 65536) costs 576 bits for a range of at least 1024 bits, a sparse block costs at most
   66112 bits for a range of at least 65537 bits; both ratios are below 1.02.  The last, partial
   block adds at most 80 bits beyond 1.02 times its range.  Hence index <= 1.02 u + 344 bits. *)
From Sucds Require Import Base.Res Spec.WordSpec Spec.BitSpec Spec.FormatSpec gen.SerialGen
  Model.BitVector Model.Rank9 Model.DArray Model.Serial
  Proofs.ResLemmas Proofs.BVAbs Proofs.BVReads Proofs.BVReads2 Proofs.R9Build Proofs.R9Rank
  Proofs.DABuild Proofs.SizeForms Proofs.SizeBV Proofs.SizeR9.
From Coq Require Import ZArith ZifyN ZifyBool ZifyNat Lia.
Ltac Zify.zify_post_hook ::= Z.div_mod_to_equations.
Open Scope N_scope.

(* ---------- the value built by Build::build_from_bits ---------- *)

Definition da_spec (bv : bitvec) (with_rank with_select0 : bool) : darray :=
  {| da_bv := bv;
     da_s1 := da_pure true (positions true (bits_of bv));
     da_s0 := if with_select0 then Some (da_pure false (positions false (bits_of bv))) else None;
     da_r9 := if with_rank then Some (r9_base bv) else None |}.

Lemma build_rank_base c bv : wf bv -> cap_ok bv -> build_rank c bv = Ok (r9_base bv).
Proof.
  intros Hwf Hcap. destruct bv as [ws len]. rewrite build_rank_ok.
  - reflexivity.
  - apply (wf_all _ Hwf).
  - apply (wf_cap_nwords _ Hwf Hcap).
Qed.

Lemma da_build_cfg_ok c bv wr ws0 : wf bv -> cap_ok bv ->
  da_build_cfg c bv wr ws0 = Ok (da_spec bv wr ws0).
Proof.
  intros Hwf Hcap. unfold da_build_cfg, da_new.
  destruct (da_build_ok bv true Hwf Hcap) as [E1 _]. destruct (da_build_ok bv false Hwf Hcap) as [E0 _].
  rewrite E1. cbn [bind].
  destruct wr.
  - unfold da_enable_rank. cbn [da_bv da_s1 da_s0 da_r9]. rewrite build_rank_base by assumption. cbn [bind].
    destruct ws0; [|reflexivity].
    unfold da_enable_select0. cbn [da_bv da_s1 da_s0 da_r9]. rewrite E0. reflexivity.
  - cbn [bind]. destruct ws0; [|reflexivity].
    unfold da_enable_select0. cbn [da_bv da_s1 da_s0 da_r9]. rewrite E0. reflexivity.
Qed.

(* ---------- the cost of the three inventories, in bits ---------- *)

Definition cost (s : dastate) : N :=
  64 * lenN (t_binv s) + 16 * lenN (t_sinv s) + 64 * lenN (t_ovf s).

(* the end of the range covered by the first G full groups of 1024 positions *)
Definition hiG (P : list N) (G : N) : N := if G =? 0 then 0 else nthN P (1024 * G - 1) 0 + 1.

Lemma incr_gap L : incr L -> forall d i, i + N.of_nat d < lenN L ->
  nthN L i 0 + N.of_nat d <= nthN L (i + N.of_nat d) 0.
Proof.
  intros Hinc. induction d as [|d IH]; intros i Hi.
  - change (N.of_nat 0) with 0. rewrite !N.add_0_r. lia.
  - specialize (IH i ltac:(lia)).
    pose proof (Hinc (i + N.of_nat d) (i + N.of_nat (S d)) ltac:(lia) Hi). lia.
Qed.

Lemma incr_gap' L i j : incr L -> i <= j -> j < lenN L -> nthN L i 0 + (j - i) <= nthN L j 0.
Proof.
  intros Hinc Hij Hj. pose proof (incr_gap L Hinc (N.to_nat (j - i)) i) as H.
  rewrite N2Nat.id in H. replace (i + (j - i)) with j in H by lia. apply H. exact Hj.
Qed.

Lemma lenN_single {A} (x : A) : lenN [x] = 1.
Proof. reflexivity. Qed.

Lemma flush_cost P s G cnt :
  incr P -> 1024 * G + cnt <= lenN P -> 0 < cnt <= 1024 ->
  lenN (t_cur s) = cnt ->
  (forall j, j < cnt -> nthN (t_cur s) j 0 = nthN P (1024 * G + j) 0) ->
  100 * cost s <= 102 * hiG P G ->
  100 * cost (flush_pure s)
  <= 102 * (nthN P (1024 * G + cnt - 1) 0 + 1) + (if cnt =? 1024 then 0 else 8000).
Proof.
  intros Hinc HP Hcnt Hlc Hcur Hc. unfold flush_pure. rewrite hd_nth0, last_nth.
  pose proof (step_by32_lenN (t_cur s)) as Hlh. rewrite Hlc in Hlh.
  rewrite Hlc. rewrite !Hcur by lia. rewrite N.add_0_r.
  replace (1024 * G + (cnt - 1)) with (1024 * G + cnt - 1) by lia.
  set (first := nthN P (1024 * G) 0) in *. set (last := nthN P (1024 * G + cnt - 1) 0) in *.
  assert (Hfirst : hiG P G <= first).
  { unfold hiG. destruct (N.eqb_spec G 0) as [Hz|Hnz]; [lia|].
    pose proof (Hinc (1024 * G - 1) (1024 * G) ltac:(lia) ltac:(lia)). unfold first. lia. }
  assert (Hlast : first + (cnt - 1) <= last).
  { pose proof (incr_gap' P (1024 * G) (1024 * G + cnt - 1) Hinc ltac:(lia) ltac:(lia)) as H.
    unfold first, last. lia. }
  unfold MAX_IN_BLOCK_DISTANCE.
  destruct (N.ltb_spec (last - first) 65536) as [Hd|Hd];
    unfold cost in *; cbn [t_binv t_sinv t_ovf];
    rewrite ?lenN_app, ?lenN_map, ?Hlh, ?Hlc, ?lenN_single;
    destruct (N.eqb_spec cnt 1024) as [Hf|Hnf]; lia.
Qed.

(* ---------- the invariant along the build ---------- *)

Definition CInv (pre : list N) (s : dastate) : Prop :=
  100 * cost s <= 102 * hiG pre (lenN pre / 1024).

Lemma CInv_s0 : CInv [] da_init.
Proof. unfold CInv, cost, da_init, hiG. cbn [t_binv t_sinv t_ovf]. unfold lenN. cbn [length]. lia. Qed.

Lemma push_cost pre s p : incr (pre ++ [p]) -> Inv pre s -> CInv pre s -> CInv (pre ++ [p]) (push_pure s p).
Proof.
  intros Hinc (Hn & Hc & Hlc & Hcur & Hlb & Hls & Hlo & Hold) HC. unfold CInv in *.
  assert (HL : lenN (pre ++ [p]) = lenN pre + 1) by (rewrite lenN_app, lenN_cons, lenN_nil; lia).
  set (G := lenN pre / 1024) in *.
  set (s1 := {| t_cur := t_cur s ++ [p]; t_cnt := t_cnt s + 1; t_binv := t_binv s;
                t_sinv := t_sinv s; t_ovf := t_ovf s; t_num := t_num s |}).
  assert (Hlc1 : lenN (t_cur s1) = t_cnt s + 1)
    by (subst s1; cbn [t_cur]; rewrite lenN_app, lenN_cons, lenN_nil; lia).
  assert (Hcur1 : forall j, j < t_cnt s + 1 -> nthN (t_cur s1) j 0 = nthN (pre ++ [p]) (1024 * G + j) 0).
  { intros j Hj. subst s1. cbn [t_cur]. destruct (N.ltb_spec j (t_cnt s)) as [Hlt|Hge].
    - rewrite !nthN_app_l by (subst G; lia). apply Hcur, Hlt.
    - rewrite !nthN_app_r by (subst G; lia). f_equal. subst G. lia. }
  assert (Hhi : hiG (pre ++ [p]) G = hiG pre G).
  { unfold hiG. destruct (N.eqb_spec G 0) as [Hz|Hnz]; [reflexivity|].
    rewrite nthN_app_l by (subst G; lia). reflexivity. }
  unfold push_pure. fold s1. cbv zeta. change (t_cnt s1) with (t_cnt s + 1). unfold DA_BLOCK_LEN.
  rewrite HL.
  destruct (N.eqb_spec (t_cnt s + 1) 1024) as [Hfull|Hnf].
  - pose proof (flush_cost (pre ++ [p]) s1 G 1024 Hinc) as F.
    assert (E2 : (lenN pre + 1) / 1024 = G + 1) by (subst G; lia). rewrite E2.
    change (cost {| t_cur := t_cur (flush_pure s1); t_cnt := t_cnt (flush_pure s1);
                    t_binv := t_binv (flush_pure s1); t_sinv := t_sinv (flush_pure s1);
                    t_ovf := t_ovf (flush_pure s1); t_num := t_num (flush_pure s1) + 1 |})
      with (cost (flush_pure s1)).
    unfold hiG at 1. destruct (N.eqb_spec (G + 1) 0) as [Hz|_]; [lia|].
    replace (1024 * (G + 1) - 1) with (1024 * G + 1024 - 1) by lia.
    change (1024 =? 1024) with true in F. cbv iota in F. rewrite N.add_0_r in F. apply F.
    + rewrite HL. subst G. lia.
    + lia.
    + rewrite Hlc1. exact Hfull.
    + intros j Hj. apply Hcur1. lia.
    + rewrite Hhi. exact HC.
  - assert (E2 : (lenN pre + 1) / 1024 = G) by (subst G; lia). rewrite E2, Hhi. exact HC.
Qed.

Lemma fold_push_cost (c : cfg) : forall l pre s, incr (pre ++ l) -> lenN (pre ++ l) < 2 ^ 56 ->
  Inv pre s -> CInv pre s ->
  Inv (pre ++ l) (fold_left push_pure l s) /\ CInv (pre ++ l) (fold_left push_pure l s).
Proof.
  induction l as [|p l IH]; intros pre s Hinc Hlen HI HC.
  - cbn [fold_left]. rewrite app_nil_r. split; assumption.
  - replace (pre ++ p :: l) with ((pre ++ [p]) ++ l) in * by (rewrite <- app_assoc; reflexivity).
    assert (Hinc1 : incr (pre ++ [p])) by (apply incr_app_l in Hinc; exact Hinc).
    destruct (push_inv c pre s p Hinc1) as [_ HI'].
    + rewrite lenN_app in Hlen. lia.
    + exact HI.
    + cbn [fold_left]. apply IH; try assumption. apply push_cost; assumption.
Qed.

(* ---------- one finished index ---------- *)

Lemma hiG_le P G u : (forall p, In p P -> p < u) -> 1024 * G <= lenN P -> hiG P G <= u.
Proof.
  intros HP HG. unfold hiG. destruct (N.eqb_spec G 0) as [Hz|Hnz]; [lia|].
  assert (Hin : In (nthN P (1024 * G - 1) 0) P) by (unfold nthN, lenN in *; apply nth_In; lia).
  specialize (HP _ Hin). lia.
Qed.

Lemma da_pure_cost v P u : incr P -> lenN P < 2 ^ 56 -> (forall p, In p P -> p < u) ->
  100 * (8 * sz_daindex (da_pure v P)) <= 102 * u + 34400.
Proof.
  intros Hinc Hlen HP.
  destruct (fold_push_cost {| dbg := true; intr := false |} P [] da_init Hinc Hlen Inv_s0 CInv_s0) as [HI HC].
  cbn [app] in HI, HC. unfold da_pure, da_finish.
  set (s := fold_left push_pure P da_init) in *.
  destruct HI as (Hn & Hc & Hlc & Hcur & Hlb & Hls & Hlo & Hold). unfold CInv in HC.
  assert (Hsz : forall s', 8 * sz_daindex {| d_block_inv := t_binv s'; d_sub_inv := t_sinv s';
                   d_overflow := t_ovf s'; d_num_positions := t_num s'; d_over_one := v |} = cost s' + 264).
  { intro s'. unfold sz_daindex, cost. cbn [d_block_inv d_sub_inv d_overflow]. lia. }
  rewrite Hsz.
  destruct (N.eqb_spec (t_cnt s) 0) as [Hz|Hnz]; cbn [negb].
  - pose proof (hiG_le P (lenN P / 1024) u HP ltac:(lia)). lia.
  - pose proof (flush_cost P s (lenN P / 1024) (t_cnt s) Hinc ltac:(lia) ltac:(lia) ltac:(lia) Hcur HC) as F.
    assert (Hin : In (nthN P (1024 * (lenN P / 1024) + t_cnt s - 1) 0) P)
      by (unfold nthN, lenN in *; apply nth_In; lia).
    specialize (HP _ Hin).
    destruct (t_cnt s =? 1024); lia.
Qed.

Lemma da_index_bits bv v : wf bv -> cap_ok bv ->
  100 * (8 * sz_daindex (da_pure v (positions v (bits_of bv)))) <= 102 * bv_len bv + 34400.
Proof.
  intros Hwf Hcap. apply da_pure_cost.
  - apply incr_positions_from.
  - unfold positions. rewrite positions_from_len.
    pose proof (count_le_len v (bits_of bv)) as H. rewrite (bits_of_length bv Hwf) in H.
    unfold cap_ok in Hcap. lia.
  - intros p Hp. apply positions_from_range in Hp. rewrite (bits_of_length bv Hwf) in Hp. lia.
Qed.

(* ---------- the whole DArray ---------- *)

Lemma da_bits_sharp bv wr ws0 : wf bv -> cap_ok bv ->
  100 * (8 * sz_darray (da_spec bv wr ws0))
  <= bv_len bv * (100 + 102 * (1 + b2n ws0) + 25 * b2n wr) + 150000.
Proof.
  intros Hwf Hcap. unfold sz_darray, da_spec. cbn [da_bv da_s1 da_s0 da_r9].
  pose proof (bitvec_bits_exact bv Hwf) as Hb. pose proof (round64_lt (bv_len bv)) as Hr.
  pose proof (da_index_bits bv true Hwf Hcap) as H1.
  pose proof (da_index_bits bv false Hwf Hcap) as H0.
  pose proof (r9_base_bits bv Hwf) as H9.
  set (u := bv_len bv) in *.
  destruct wr, ws0; cbn [sz_opt b2n]; lia.
Qed.

Theorem size_darray_bound bv wr ws0 : wf bv -> cap_ok bv ->
  100 * (8 * size ty_DArray (v_darray (da_spec bv wr ws0)))
  <= bv_len bv * (100 + 102 * (1 + b2n ws0) + 26 * b2n wr) + 409600.
Proof.
  intros Hwf Hcap. rewrite size_darray. pose proof (da_bits_sharp bv wr ws0 Hwf Hcap).
  destruct wr, ws0; cbn [b2n] in *; lia.
Qed.

Corollary size_darray_built c bv wr ws0 d : wf bv -> cap_ok bv -> da_build_cfg c bv wr ws0 = Ok d ->
  100 * (8 * size ty_DArray (v_darray d))
  <= bv_len bv * (100 + 102 * (1 + match da_s0 d with Some _ => 1 | None => 0 end)
                      + 26 * match da_r9 d with Some _ => 1 | None => 0 end) + 409600.
Proof.
  intros Hwf Hcap E. rewrite (da_build_cfg_ok c bv wr ws0 Hwf Hcap) in E. injection E as <-.
  pose proof (size_darray_bound bv wr ws0 Hwf Hcap) as H.
  unfold da_spec at 2 3. cbn [da_s0 da_r9]. destruct wr, ws0; exact H.
Qed.

Print Assumptions da_build_cfg_ok.
Print Assumptions size_darray_bound.
Print Assumptions size_darray_built.
