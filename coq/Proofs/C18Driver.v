(* Proofs/C18Driver.v — the form in which the driver (Extract/Dispatch.v, op 81) decides C18 for inputs of any
   size: the widths returned by the implementation are optimal iff they are admissible and cost exactly as much
   as the widths the model computes (which C18_optimal proves minimal). *)
From Sucds Require Import Base.Res Spec.DacSpec Model.CompactVector Model.Dacs Proofs.DP_Walk.
From Coq Require Import Lia.
Open Scope N_scope.

Definition optimal (vals ws : list N) (ml : N) : Prop :=
  DacSpec.admissible vals ws ml = true /\
  forall ws', DacSpec.admissible vals ws' ml = true -> DacSpec.cost vals ws <= DacSpec.cost vals ws'.

Lemma optimal_iff_cost_of_model : forall c vals ml,
  vals <> [] -> 1 <= ml -> ml <= 64 -> Forall (fun x => x < W) vals -> lenN vals < 2^56 ->
  exists wm, compute_opt_widths c vals ml = Ok wm /\
    forall ws, optimal vals ws ml <->
               (DacSpec.admissible vals ws ml = true /\ DacSpec.cost vals ws = DacSpec.cost vals wm).
Proof.
  intros c vals ml Hne H1 H64 HW Hlen.
  destruct (compute_opt_widths_optimal c vals ml Hne H1 H64 HW Hlen) as [wm [Hm [Hadm Hmin]]].
  exists wm. split; [exact Hm|].
  intros ws. split.
  - intros [Ha Hopt]. split; [exact Ha|].
    pose proof (Hopt wm Hadm). pose proof (Hmin ws Ha). lia.
  - intros [Ha Hc]. split; [exact Ha|].
    intros ws' Ha'. rewrite Hc. apply Hmin. exact Ha'.
Qed.
