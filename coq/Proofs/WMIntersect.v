(* Proofs/WMIntersect.v — intersect of a built wavelet matrix = the ascending distinct values occurring
   in more than k of the ranges (C06). *)
From Sucds Require Import Base.Res Spec.WordSpec Spec.BitSpec Spec.SeqSpec Spec.DacSpec
  Model.BitVector Model.Rank9 Model.DArray Model.CompactVector Model.Wavelet
  Proofs.ResLemmas Proofs.BVAbs Proofs.WordLemmas Proofs.IndexSpecs Proofs.WMLists Proofs.WMBuild
  Proofs.WMQueries Proofs.WMQuantile.
From Coq Require Import ZArith ZifyN ZifyBool ZifyNat Lia.
Ltac Zify.zify_post_hook ::= Z.div_mod_to_equations.
Open Scope N_scope.

(* ---------- strictly ascending lists ---------- *)
Fixpoint strictP (l : list N) : Prop :=
  match l with [] => True | x :: r => (forall y, In y r -> x < y) /\ strictP r end.

Lemma strict_filter f l : strictP l -> strictP (filter f l).
Proof.
  induction l as [|x l IH]; intro H; [exact I|]. destruct H as [H1 H2]. cbn [filter].
  destruct (f x); [|apply IH, H2]. cbn [strictP]. split; [|apply IH, H2].
  intros y Hy. apply filter_In in Hy. apply H1, Hy.
Qed.
Lemma strict_app l1 l2 : strictP l1 -> strictP l2 -> (forall x y, In x l1 -> In y l2 -> x < y) ->
  strictP (l1 ++ l2).
Proof.
  induction l1 as [|x l1 IH]; intros H1 H2 H; [exact H2|]. destruct H1 as [Hx H1]. cbn [app strictP]. split.
  - intros y Hy. apply in_app_or in Hy. destruct Hy as [Hy|Hy]; [apply Hx, Hy | apply H; [left; reflexivity | exact Hy]].
  - apply IH; [exact H1 | exact H2 |]. intros a b Ha Hb. apply H; [right; exact Ha | exact Hb].
Qed.
Lemma strict_map_add c l : strictP l -> strictP (map (N.add c) l).
Proof.
  induction l as [|x l IH]; intro H; [exact I|]. destruct H as [H1 H2]. cbn [map strictP]. split; [|apply IH, H2].
  intros y Hy. apply in_map_iff in Hy. destruct Hy as [z [<- Hz]]. specialize (H1 z Hz). lia.
Qed.
Lemma strict_unique l1 : forall l2, strictP l1 -> strictP l2 -> (forall v, In v l1 <-> In v l2) -> l1 = l2.
Proof.
  induction l1 as [|x1 r1 IH]; intros l2 H1 H2 Hm.
  - destruct l2 as [|x2 r2]; [reflexivity|]. exfalso. apply (proj2 (Hm x2)). left. reflexivity.
  - destruct l2 as [|x2 r2]; [exfalso; apply (proj1 (Hm x1)); left; reflexivity|].
    destruct H1 as [Hx1 H1]. destruct H2 as [Hx2 H2].
    assert (E : x1 = x2).
    { destruct (proj1 (Hm x1) (or_introl eq_refl)) as [E|Hin1]; [symmetry; exact E|].
      destruct (proj2 (Hm x2) (or_introl eq_refl)) as [E|Hin2]; [exact E|].
      specialize (Hx2 x1 Hin1). specialize (Hx1 x2 Hin2). lia. }
    subst x2. f_equal. apply IH; [exact H1 | exact H2|].
    intro v. split; intro Hv.
    + destruct (proj1 (Hm v) (or_intror Hv)) as [E|Hin]; [|exact Hin]. specialize (Hx1 v Hv). lia.
    + destruct (proj2 (Hm v) (or_intror Hv)) as [E|Hin]; [|exact Hin]. specialize (Hx2 v Hv). lia.
Qed.

Lemma In_insert_iff x y l : In y (insert_sorted x l) <-> y = x \/ In y l.
Proof.
  split; [apply In_insert|]. induction l as [|z l IH]; cbn [insert_sorted].
  - intros [->|[]]. left. reflexivity.
  - destruct (x <=? z).
    + intros [->|H]; [left; reflexivity | right; exact H].
    + intros [->|[->|H]]; [right; apply IH; left; reflexivity | left; reflexivity | right; apply IH; right; exact H].
Qed.
Lemma In_sort v l : In v (sort l) <-> In v l.
Proof.
  induction l as [|x l IH]; [reflexivity|]. unfold sort in *. cbn [fold_right].
  rewrite In_insert_iff, IH. cbn [In]. split; intros [H|H]; auto.
Qed.

Lemma dedup_sorted_spec l : sortedP l -> strictP (dedup_sorted l) /\ (forall v, In v (dedup_sorted l) <-> In v l).
Proof.
  induction l as [|x r IH]; intro Hs; [split; [exact I | reflexivity]|].
  destruct Hs as [Hx Hs]. specialize (IH Hs). destruct IH as [IH1 IH2].
  destruct r as [|y t].
  - cbn [dedup_sorted]. split; [split; [intros y []|exact I] | reflexivity].
  - change (dedup_sorted (x :: y :: t)) with (if x =? y then dedup_sorted (y :: t) else x :: dedup_sorted (y :: t)).
    destruct (N.eqb_spec x y) as [E|E].
    + split; [exact IH1|]. intro v. rewrite IH2. subst y. cbn [In]. tauto.
    + split.
      * cbn [strictP]. split; [|exact IH1]. intros z Hz. apply IH2 in Hz.
        destruct Hs as [Hy _]. destruct Hz as [<-|Hz].
        -- pose proof (Hx y (or_introl eq_refl)). lia.
        -- pose proof (Hx y (or_introl eq_refl)). pose proof (Hy z Hz). lia.
      * intro v. cbn [In]. rewrite IH2. cbn [In]. tauto.
Qed.

(* ---------- all n-bit values, ascending ---------- *)
Fixpoint vals (n : nat) : list N :=
  match n with O => [0] | Datatypes.S m => vals m ++ map (N.add (2 ^ N.of_nat m)) (vals m) end.
Lemma vals_In n : forall r, In r (vals n) <-> r < 2 ^ N.of_nat n.
Proof.
  induction n as [|m IH]; intro r.
  - cbn [vals In]. change (2 ^ N.of_nat 0) with 1. lia.
  - cbn [vals]. rewrite in_app_iff, in_map_iff.
    replace (N.of_nat (Datatypes.S m)) with (N.of_nat m + 1) by lia. rewrite N.pow_add_r. change (2 ^ 1) with 2.
    split.
    + intros [H|[z [<- Hz]]]; [apply IH in H; lia | apply IH in Hz; lia].
    + intro H. destruct (N.lt_ge_cases r (2 ^ N.of_nat m)) as [H1|H1]; [left; apply IH, H1|].
      right. exists (r - 2 ^ N.of_nat m). split; [lia | apply IH; lia].
Qed.
Lemma vals_strict n : strictP (vals n).
Proof.
  induction n as [|m IH]; [split; [intros y []|exact I]|].
  cbn [vals]. apply strict_app; [exact IH | apply strict_map_add, IH|].
  intros x y Hx Hy. apply vals_In in Hx. apply in_map_iff in Hy. destruct Hy as [z [<- _]]. lia.
Qed.

(* ---------- occurrences of a value (by its low n bits) in a list of ranges ---------- *)
Definition inr (n : N) (xs : list N) (r : N) (ab : N * N) : bool :=
  existsb (fun x => gm n x =? r) (sub_seq xs (fst ab) (snd ab)).
Definition occ (n : N) (xs : list N) (rs : list (N * N)) (r : N) : N := cntf (inr n xs r) rs.
Definition out (n : nat) (xs : list N) (rs : list (N * N)) (k prefix : N) : list N :=
  map (N.add (prefix * 2 ^ N.of_nat n)) (filter (fun r => k <? occ (N.of_nat n) xs rs r) (vals n)).

Fixpoint zsplit (m : N) (xs : list N) (rs : list (N * N)) : list (N * N) :=
  match rs with
  | [] => []
  | (a, b) :: t =>
      if b <=? a then zsplit m xs t else
      if 0 <? r0 m xs b - r0 m xs a then (r0 m xs a, r0 m xs b) :: zsplit m xs t else zsplit m xs t
  end.
Fixpoint osplit (m : N) (xs : list N) (rs : list (N * N)) : list (N * N) :=
  match rs with
  | [] => []
  | (a, b) :: t =>
      if b <=? a then osplit m xs t else
      if 0 <? (nz m xs + r1 m xs b) - (nz m xs + r1 m xs a)
      then (nz m xs + r1 m xs a, nz m xs + r1 m xs b) :: osplit m xs t else osplit m xs t
  end.
Definition in_bounds (xs : list N) (rs : list (N * N)) : Prop := Forall (fun ab => snd ab <= lenN xs) rs.
Definition good_ranges (xs : list N) (rs : list (N * N)) : Prop :=
  Forall (fun ab => fst ab < snd ab /\ snd ab <= lenN xs) rs.

Lemma zsplit_cons m xs ab t : zsplit m xs (ab :: t) = zsplit m xs [ab] ++ zsplit m xs t.
Proof.
  destruct ab as [a b]. cbn [zsplit]. destruct (b <=? a); [reflexivity|].
  destruct (0 <? r0 m xs b - r0 m xs a); reflexivity.
Qed.
Lemma osplit_cons m xs ab t : osplit m xs (ab :: t) = osplit m xs [ab] ++ osplit m xs t.
Proof.
  destruct ab as [a b]. cbn [osplit]. destruct (b <=? a); [reflexivity|].
  destruct (0 <? (nz m xs + r1 m xs b) - (nz m xs + r1 m xs a)); reflexivity.
Qed.

Lemma zsplit_good m xs rs : in_bounds xs rs -> good_ranges (part m xs) (zsplit m xs rs).
Proof.
  induction rs as [|[a b] t IH]; intro H; [constructor|]. inversion H as [|? ? Hb Ht]; subst. cbn [snd] in Hb.
  cbn [zsplit]. destruct (N.leb_spec b a) as [H1|H1]; [apply IH, Ht|].
  destruct (N.ltb_spec 0 (r0 m xs b - r0 m xs a)) as [H2|H2]; [|apply IH, Ht].
  constructor; [|apply IH, Ht]. cbn [fst snd]. rewrite lenN_part.
  pose proof (r0_le_nz m xs b Hb). pose proof (nz_le m xs). lia.
Qed.
Lemma osplit_good m xs rs : in_bounds xs rs -> good_ranges (part m xs) (osplit m xs rs).
Proof.
  induction rs as [|[a b] t IH]; intro H; [constructor|]. inversion H as [|? ? Hb Ht]; subst. cbn [snd] in Hb.
  cbn [osplit]. destruct (N.leb_spec b a) as [H1|H1]; [apply IH, Ht|].
  destruct (N.ltb_spec 0 (nz m xs + r1 m xs b - (nz m xs + r1 m xs a))) as [H2|H2]; [|apply IH, Ht].
  constructor; [|apply IH, Ht]. cbn [fst snd]. rewrite lenN_part.
  pose proof (r1_le_no m xs b Hb). pose proof (cnt_tb_ntb m xs) as H4. fold (nz m xs) in H4. lia.
Qed.
Lemma good_in_bounds xs rs : good_ranges xs rs -> in_bounds xs rs.
Proof. apply Forall_impl. intros ab [_ H]. exact H. Qed.

Lemma existsb_filter {A} (f g : A -> bool) l : existsb f (filter g l) = existsb (fun x => g x && f x) l.
Proof.
  induction l as [|x l IH]; [reflexivity|]. cbn [filter existsb].
  destruct (g x); cbn [existsb andb orb]; rewrite IH; reflexivity.
Qed.
Lemma existsb_ext_in {A} (f g : A -> bool) l : (forall x, In x l -> f x = g x) -> existsb f l = existsb g l.
Proof.
  intro H. induction l as [|x l IH]; [reflexivity|]. cbn [existsb].
  rewrite (H x (or_introl eq_refl)), IH; [reflexivity|]. intros y Hy. apply H. right. exact Hy.
Qed.

Lemma pw_eq0 m x r : r < 2 ^ m -> (gm (m + 1) x =? r) = ntb m x && (gm m x =? r).
Proof.
  intro Hr. destruct (pw_split m x) as [E Hlt]. rewrite E. unfold ntb.
  destruct (N.testbit x m); cbn [negb andb].
  - destruct (N.eqb_spec (2 ^ m + gm m x) r); [lia | reflexivity].
  - reflexivity.
Qed.
Lemma pw_eq1 m x r : r < 2 ^ m -> (gm (m + 1) x =? 2 ^ m + r) = tb m x && (gm m x =? r).
Proof.
  intro Hr. destruct (pw_split m x) as [E Hlt]. rewrite E. unfold tb.
  destruct (N.testbit x m); cbn [negb andb].
  - destruct (N.eqb_spec (2 ^ m + gm m x) (2 ^ m + r)), (N.eqb_spec (gm m x) r); try reflexivity; lia.
  - destruct (N.eqb_spec (0 + gm m x) (2 ^ m + r)); [lia | reflexivity].
Qed.

Lemma inr_down0 m xs r a b : r < 2 ^ m -> a <= b -> b <= lenN xs ->
  inr (m + 1) xs r (a, b) = inr m (part m xs) r (r0 m xs a, r0 m xs b).
Proof.
  intros Hr Hab Hb. unfold inr. cbn [fst snd]. rewrite part_range0 by assumption.
  rewrite existsb_filter. apply existsb_ext_in. intros x _. apply pw_eq0, Hr.
Qed.
Lemma inr_down1 m xs r a b : r < 2 ^ m -> a <= b -> b <= lenN xs ->
  inr (m + 1) xs (2 ^ m + r) (a, b) = inr m (part m xs) r (nz m xs + r1 m xs a, nz m xs + r1 m xs b).
Proof.
  intros Hr Hab Hb. unfold inr. cbn [fst snd]. rewrite part_range1 by assumption.
  rewrite existsb_filter. apply existsb_ext_in. intros x _. apply pw_eq1, Hr.
Qed.
Lemma inr_empty n xs r a b : b <= a -> inr n xs r (a, b) = false.
Proof. intro H. unfold inr. cbn [fst snd]. rewrite sub_seq_nil by exact H. reflexivity. Qed.

Lemma occ_down0 m xs rs r : r < 2 ^ m -> in_bounds xs rs ->
  occ (m + 1) xs rs r = occ m (part m xs) (zsplit m xs rs) r.
Proof.
  intros Hr. unfold occ. induction rs as [|[a b] t IH]; intro H; [reflexivity|].
  inversion H as [|? ? Hb Ht]; subst. cbn [snd] in Hb. specialize (IH Ht).
  rewrite cntf_cons. cbn [zsplit]. destruct (N.leb_spec b a) as [H1|H1].
  - rewrite inr_empty by exact H1. rewrite IH. reflexivity.
  - rewrite inr_down0 by (try assumption; lia).
    destruct (N.ltb_spec 0 (r0 m xs b - r0 m xs a)) as [H2|H2].
    + rewrite cntf_cons, IH. reflexivity.
    + rewrite inr_empty by lia. rewrite IH. reflexivity.
Qed.
Lemma occ_down1 m xs rs r : r < 2 ^ m -> in_bounds xs rs ->
  occ (m + 1) xs rs (2 ^ m + r) = occ m (part m xs) (osplit m xs rs) r.
Proof.
  intros Hr. unfold occ. induction rs as [|[a b] t IH]; intro H; [reflexivity|].
  inversion H as [|? ? Hb Ht]; subst. cbn [snd] in Hb. specialize (IH Ht).
  rewrite cntf_cons. cbn [osplit]. destruct (N.leb_spec b a) as [H1|H1].
  - rewrite inr_empty by exact H1. rewrite IH. reflexivity.
  - rewrite inr_down1 by (try assumption; lia).
    destruct (N.ltb_spec 0 (nz m xs + r1 m xs b - (nz m xs + r1 m xs a))) as [H2|H2].
    + rewrite cntf_cons, IH. reflexivity.
    + rewrite inr_empty by lia. rewrite IH. reflexivity.
Qed.

Lemma filter_none {A} (f : A -> bool) l : (forall x, In x l -> f x = false) -> filter f l = [].
Proof.
  intro H. induction l as [|x l IH]; [reflexivity|]. cbn [filter].
  rewrite (H x (or_introl eq_refl)). apply IH. intros y Hy. apply H. right. exact Hy.
Qed.
Lemma filter_map_comm {A B} (f : B -> bool) (g : A -> B) l : filter f (map g l) = map g (filter (fun x => f (g x)) l).
Proof.
  induction l as [|x l IH]; [reflexivity|]. cbn [map filter]. destruct (f (g x)); cbn [map]; rewrite IH; reflexivity.
Qed.

Lemma out_split m xs rs k prefix : in_bounds xs rs ->
  out (Datatypes.S m) xs rs k prefix =
  (if k <? lenN (zsplit (N.of_nat m) xs rs)
   then out m (part (N.of_nat m) xs) (zsplit (N.of_nat m) xs rs) k (prefix * 2) else []) ++
  (if k <? lenN (osplit (N.of_nat m) xs rs)
   then out m (part (N.of_nat m) xs) (osplit (N.of_nat m) xs rs) k (2 * prefix + 1) else []).
Proof.
  intro Hin. unfold out. set (mm := N.of_nat m).
  replace (N.of_nat (Datatypes.S m)) with (mm + 1) by lia.
  cbn [vals]. fold mm. rewrite filter_app, map_app. f_equal.
  - rewrite (filter_ext_in (fun r => k <? occ (mm + 1) xs rs r)
                           (fun r => k <? occ mm (part mm xs) (zsplit mm xs rs) r)).
    2:{ intros r Hr. apply vals_In in Hr. fold mm in Hr. rewrite occ_down0 by assumption. reflexivity. }
    destruct (N.ltb_spec k (lenN (zsplit mm xs rs))) as [H|H].
    + apply map_ext. intro r. rewrite N.pow_add_r. change (2 ^ 1) with 2. lia.
    + rewrite filter_none; [reflexivity|]. intros r _.
      pose proof (cntf_le (inr mm (part mm xs) r) (zsplit mm xs rs)) as H1. unfold occ.
      destruct (N.ltb_spec k (cntf (inr mm (part mm xs) r) (zsplit mm xs rs))); [lia | reflexivity].
  - rewrite filter_map_comm, map_map.
    rewrite (filter_ext_in (fun r => k <? occ (mm + 1) xs rs (2 ^ mm + r))
                           (fun r => k <? occ mm (part mm xs) (osplit mm xs rs) r)).
    2:{ intros r Hr. apply vals_In in Hr. fold mm in Hr. rewrite occ_down1 by assumption. reflexivity. }
    destruct (N.ltb_spec k (lenN (osplit mm xs rs))) as [H|H].
    + apply map_ext. intro r. rewrite N.pow_add_r. change (2 ^ 1) with 2. lia.
    + rewrite filter_none; [reflexivity|]. intros r _.
      pose proof (cntf_le (inr mm (part mm xs) r) (osplit mm xs rs)) as H1. unfold occ.
      destruct (N.ltb_spec k (cntf (inr mm (part mm xs) r) (osplit mm xs rs))); [lia | reflexivity].
Qed.

(* ---------- the model: one layer ---------- *)
Lemma split_step c l m xs a b t zr orr : backing_correct c l (map (tb m) xs) -> lenN xs < 2 ^ 50 ->
  b <= lenN xs ->
  split_ranges c l ((a, b) :: t) zr orr
  = split_ranges c l t (zr ++ zsplit m xs [(a, b)]) (orr ++ osplit m xs [(a, b)]).
Proof.
  intros Hl Hlen Hb. pose proof pow51_W as HW.
  destruct (layer_facts c l m xs Hl Hlen) as [Hn [Hz [_ [_ [Hr0 _]]]]].
  cbn [split_ranges zsplit osplit]. rewrite Hn.
  destruct (N.ltb_spec (lenN xs) b) as [H|_]; [lia|].
  destruct (N.leb_spec b a) as [H1|H1]; [rewrite !app_nil_r; reflexivity|].
  pose proof (r0_split m xs a b ltac:(lia) Hb) as H3. pose proof (r1_split m xs a b ltac:(lia) Hb) as H4.
  pose proof (r0_r1 m xs a ltac:(lia)) as H5. pose proof (r0_r1 m xs b Hb) as H6.
  pose proof (nz_le m xs) as H7.
  rewrite !Hr0 by lia. cbn [bind unwrap]. rewrite Hz. cbn [bind].
  rewrite add_ok by lia. cbn [bind]. rewrite sub_ok by lia. cbn [bind].
  rewrite add_ok by lia. cbn [bind]. rewrite sub_ok by lia. cbn [bind].
  rewrite sub_ok by lia. cbn [bind].
  replace (nz m xs + a - r0 m xs a) with (nz m xs + r1 m xs a) by lia.
  replace (nz m xs + b - r0 m xs b) with (nz m xs + r1 m xs b) by lia.
  rewrite sub_ok by lia. cbn [bind].
  destruct (0 <? r0 m xs b - r0 m xs a), (0 <? nz m xs + r1 m xs b - (nz m xs + r1 m xs a));
    rewrite ?app_nil_r; reflexivity.
Qed.

Lemma split_ok c l m xs : backing_correct c l (map (tb m) xs) -> lenN xs < 2 ^ 50 ->
  forall rs zr orr, in_bounds xs rs ->
  split_ranges c l rs zr orr = Ok (Some (zr ++ zsplit m xs rs, orr ++ osplit m xs rs)).
Proof.
  intros Hl Hlen. induction rs as [|[a b] t IH]; intros zr orr H.
  - cbn [split_ranges zsplit osplit]. rewrite !app_nil_r. reflexivity.
  - inversion H as [|? ? Hb Ht]; subst. cbn [snd] in Hb.
    rewrite (split_step c l m xs a b t zr orr Hl Hlen Hb). rewrite (IH _ _ Ht).
    rewrite (zsplit_cons m xs (a, b) t), (osplit_cons m xs (a, b) t), !app_assoc. reflexivity.
Qed.

Lemma split_none c l m xs : backing_correct c l (map (tb m) xs) -> lenN xs < 2 ^ 50 ->
  forall rs zr orr, existsb (fun ab => lenN xs <? snd ab) rs = true ->
  split_ranges c l rs zr orr = Ok None.
Proof.
  intros Hl Hlen. induction rs as [|[a b] t IH]; intros zr orr H; [discriminate|].
  cbn [existsb snd] in H. destruct (N.ltb_spec (lenN xs) b) as [H1|H1].
  - cbn [split_ranges]. destruct (layer_facts c l m xs Hl Hlen) as [Hn _]. rewrite Hn.
    destruct (N.ltb_spec (lenN xs) b) as [_|H2]; [reflexivity | lia].
  - rewrite (split_step c l m xs a b t zr orr Hl Hlen H1). apply IH. exact H.
Qed.

Lemma occ0_good xs rs : good_ranges xs rs -> occ 0 xs rs 0 = lenN rs.
Proof.
  intro H. unfold occ. apply cntf_true. intros [a b] Hab.
  unfold good_ranges in H. rewrite Forall_forall in H. destruct (H _ Hab) as [H1 H2]. cbn [fst snd] in H1, H2.
  unfold inr. cbn [fst snd]. pose proof (sub_seq_len xs a b ltac:(lia) H2) as HL.
  destruct (sub_seq xs a b) as [|x t]; [rewrite lenN_nil in HL; lia|].
  cbn [existsb]. unfold gm. change (2 ^ 0) with 1. rewrite N.mod_1_r. reflexivity.
Qed.

Lemma isect_layers c k n : forall xs ls, layers_ok n xs ls -> lenN xs < 2 ^ 50 ->
  forall d prefix rs, d + N.of_nat n <= 64 -> prefix < 2 ^ d -> in_bounds xs rs ->
  (n = 0%nat -> good_ranges xs rs /\ k < lenN rs) ->
  intersect_helper c ls rs k prefix = Ok (Some (out n xs rs k prefix)).
Proof.
  induction n as [|m IH]; intros xs ls Hok Hlen d prefix rs Hd Hp Hin H0;
    destruct ls as [|l ls]; cbn [layers_ok] in Hok; try contradiction.
  - destruct (H0 eq_refl) as [Hg Hk]. cbn [intersect_helper]. unfold out. cbn [vals filter].
    change (N.of_nat 0) with 0. rewrite (occ0_good xs rs Hg).
    destruct (N.ltb_spec k (lenN rs)) as [_|H]; [|lia]. cbn [map]. do 3 f_equal.
    change (2 ^ 0) with 1. lia.
  - destruct Hok as [Hl Hrest]. set (mm := N.of_nat m) in *.
    replace (N.of_nat (Datatypes.S m)) with (mm + 1) in Hd by lia.
    cbn [intersect_helper]. rewrite (split_ok c l mm xs (Hl c) Hlen rs [] [] Hin). cbn [bind app].
    assert (Hv2 : prefix * 2 ^ 1 < W).
    { change (2 ^ 1) with 2. assert (2 ^ d <= 2 ^ 63) by (apply N.pow_le_mono_r; lia).
      assert (2 ^ 63 * 2 = W) by reflexivity. lia. }
    assert (Hd1 : 2 * prefix + 1 < 2 ^ (d + 1)).
    { rewrite N.pow_add_r. change (2 ^ 1) with 2. lia. }
    rewrite shl_ok_small by (try exact Hv2; lia). cbn [bind]. change (2 ^ 1) with 2.
    rewrite (out_split m xs rs k prefix Hin). fold mm.
    pose proof (zsplit_good mm xs rs Hin) as Hgz. pose proof (osplit_good mm xs rs Hin) as Hgo.
    pose proof (lenN_part mm xs) as Hlp.
    assert (Ea : (if k <? lenN (zsplit mm xs rs) then intersect_helper c ls (zsplit mm xs rs) k (prefix * 2) else Ok (Some []))
                 = Ok (Some (if k <? lenN (zsplit mm xs rs) then out m (part mm xs) (zsplit mm xs rs) k (prefix * 2) else []))).
    { destruct (N.ltb_spec k (lenN (zsplit mm xs rs))) as [H|H]; [|reflexivity].
      apply (IH (part mm xs) ls Hrest) with (d := d + 1); try lia.
      - apply good_in_bounds, Hgz.
      - intros _. split; assumption. }
    assert (Eb : (if k <? lenN (osplit mm xs rs) then intersect_helper c ls (osplit mm xs rs) k (N.lor (prefix * 2) 1) else Ok (Some []))
                 = Ok (Some (if k <? lenN (osplit mm xs rs) then out m (part mm xs) (osplit mm xs rs) k (2 * prefix + 1) else []))).
    { destruct (N.ltb_spec k (lenN (osplit mm xs rs))) as [H|H]; [|reflexivity].
      rewrite (N.mul_comm prefix 2), lor_double_1.
      apply (IH (part mm xs) ls Hrest) with (d := d + 1); try lia.
      - apply good_in_bounds, Hgo.
      - intros _. split; assumption. }
    rewrite Ea. cbn [bind]. rewrite Eb. cbn [bind]. reflexivity.
Qed.

(* ---------- against the specification ---------- *)
Lemma cntf_pos_ex {A} (f : A -> bool) l : 0 < cntf f l -> exists x, In x l /\ f x = true.
Proof.
  induction l as [|x l IH]; [change (cntf f []) with 0; lia|].
  rewrite cntf_cons. destruct (f x) eqn:E.
  - intros _. exists x. split; [left; reflexivity | exact E].
  - intro H. destruct IH as [y [Hy Hf]]; [lia|]. exists y. split; [right; exact Hy | exact Hf].
Qed.
Lemma existsb_false_bounds xs rs : existsb (fun r : N * N => lenN xs <? snd r) rs = false -> in_bounds xs rs.
Proof.
  induction rs as [|ab t IH]; intro H; [constructor|]. cbn [existsb] in H. apply orb_false_iff in H.
  destruct H as [H1 H2]. constructor; [|apply IH, H2]. destruct (N.ltb_spec (lenN xs) (snd ab)); [discriminate | assumption].
Qed.
Lemma map_add_0 l : map (N.add 0) l = l.
Proof. rewrite <- (map_id l) at 2. apply map_ext. intro x. apply N.add_0_l. Qed.

Section Intersect.
Variables (wm : wavelet) (s : list N).
Hypothesis Hok : wm_ok wm s.
Hypothesis Hmax : max_list s + 1 < W.
Hypothesis Hlen : lenN s < 2 ^ 50.

Theorem wm_intersect_ok c rs k : wm_intersect c wm rs k = Ok (SeqSpec.wm_intersect s rs k).
Proof.
  unfold wm_intersect, SeqSpec.wm_intersect.
  pose proof Hok as [_ HL]. destruct (bitlen_bounds (max_list s + 1)) as [Hw1 [Hw2 Hw3]]; [lia | exact Hmax |].
  set (w := bitlen (max_list s + 1)) in *.
  assert (Hel : forall y, In y s -> y < 2 ^ w).
  { intros y Hy. pose proof (max_list_ge s y Hy). lia. }
  destruct (existsb (fun r => lenN s <? snd r) rs) eqn:Eb.
  - destruct (N.to_nat w) as [|m] eqn:Em; [lia|].
    destruct (wm_layers wm) as [|l ls]; cbn [layers_ok] in HL; [contradiction|]. destruct HL as [Hl _].
    cbn [intersect_helper]. rewrite (split_none c l (N.of_nat m) s (Hl c) Hlen rs [] [] Eb). reflexivity.
  - pose proof (existsb_false_bounds s rs Eb) as Hin.
    rewrite (isect_layers c k (N.to_nat w) s (wm_layers wm) HL Hlen 0 0 rs); try assumption; try lia.
    do 2 f_equal. unfold out. rewrite N.mul_0_l, map_add_0, N2Nat.id.
    set (subs := map (fun r => sub_seq s (fst r) (snd r)) rs).
    set (Q := fun v => k <? lenN (filter (fun sb => existsb (fun x => x =? v) sb) subs)).
    assert (HQ : forall v, (k <? occ w s rs v) = Q v).
    { intro v. unfold Q, occ, subs. change (lenN (filter ?f ?l)) with (cntf f l). rewrite cntf_map.
      f_equal. apply cntf_ext. intros ab _. unfold inr. apply existsb_ext_in. intros x Hx.
      unfold gm. rewrite N.mod_small; [reflexivity|]. apply Hel. apply (sub_seq_In s _ _ x Hx). }
    rewrite (filter_ext _ _ HQ).
    assert (HQin : forall v, Q v = true -> In v (concat subs)).
    { intros v Hv. unfold Q in Hv. apply N.ltb_lt in Hv.
      destruct (cntf_pos_ex (fun sb => existsb (fun x => x =? v) sb) subs) as [sb [Hsb Hex]].
      { unfold cntf. lia. }
      apply existsb_exists in Hex. destruct Hex as [x [Hx E]]. apply N.eqb_eq in E. subst x.
      apply in_concat. exists sb. split; assumption. }
    assert (Hcs : forall v, In v (concat subs) -> In v s).
    { intros v Hv. apply in_concat in Hv. destruct Hv as [sb [Hsb Hv]]. unfold subs in Hsb.
      apply in_map_iff in Hsb. destruct Hsb as [ab [<- _]]. apply (sub_seq_In s _ _ v Hv). }
    destruct (dedup_sorted_spec (sort (concat subs)) (sorted_sort _)) as [Hst Hmem].
    apply strict_unique.
    + apply strict_filter, vals_strict.
    + apply strict_filter, Hst.
    + intro v. rewrite !filter_In, Hmem, In_sort, vals_In, N2Nat.id. split.
      * intros [_ Hv]. split; [apply HQin, Hv | exact Hv].
      * intros [Hv HqQ]. split; [apply Hel, Hcs, Hv | exact HqQ].
Qed.
End Intersect.

Section TopI.
Hypothesis b_build_ok : forall k bv, wf bv -> cap_ok bv ->
  exists b, (forall c, b_build c k bv = Ok b) /\ (forall c, backing_correct c b (bits_of bv)).
Theorem wm_intersect_spec c0 k s wm : seq_ok s -> wm_new c0 k s = Ok (Some wm) ->
  forall c rs j, wm_intersect c wm rs j = Ok (SeqSpec.wm_intersect s rs j).
Proof.
  intros Hs E c rs j. apply wm_intersect_ok; [eapply (built_ok b_build_ok); eassumption | apply Hs | apply Hs].
Qed.
End TopI.
Print Assumptions wm_intersect_spec.
