(* Proofs/SizeForms.v — property C19, part 1: closed forms of `size_in_bytes()` for every model
   value, i.e. of `FormatSpec.size ty_T (v_T x)`, as plain arithmetic over the lengths of the
   stored vectors.  (Proofs/SerialGeneric.v `ser_length` ties `size` to the byte count.) *)
From Sucds Require Import Base.Res Spec.FormatSpec gen.SerialGen Model.BitVector Model.Rank9
  Model.DArray Model.EliasFano Model.SArray Model.CompactVector Model.Dacs Model.Psef Model.Wavelet
  Model.Serial Proofs.ResLemmas.
From Coq Require Import ZArith ZifyN ZifyBool ZifyNat Lia.
Open Scope N_scope.

(* ---------- vectors of primitives: the `size_of` fast path ---------- *)

Lemma size_nums l : size (TVec TU64) (v_nums l) = 8 + 8 * lenN l.
Proof. unfold v_nums. cbn [size fixed_size]. rewrite lenN_map. reflexivity. Qed.

Lemma size_nums16 l : size (TVec TU16) (v_nums l) = 8 + 2 * lenN l.
Proof. unfold v_nums. cbn [size fixed_size]. rewrite lenN_map. reflexivity. Qed.

Lemma size_nums8 l : size (TVec TU8) (v_nums l) = 8 + lenN l.
Proof. unfold v_nums. cbn [size fixed_size]. rewrite lenN_map. lia. Qed.

Lemma size_ints (l : list Z) : size (TVec TI64) (VVec (map VInt l)) = 8 + 8 * lenN l.
Proof. cbn [size fixed_size]. rewrite lenN_map. reflexivity. Qed.

Definition opt_len (o : option (list N)) : N :=
  match o with Some l => 8 + 8 * lenN l + 1 | None => 1 end.

Lemma size_optnums o : size (TOpt (TVec TU64)) (v_optnums o) = opt_len o.
Proof.
  destruct o as [l|]; unfold v_optnums, opt_len; cbn [option_map].
  - change (size (TOpt (TVec TU64)) (VOpt (Some (v_nums l)))) with (size (TVec TU64) (v_nums l) + 1).
    rewrite size_nums. reflexivity.
  - reflexivity.
Qed.

(* vectors of structures: the sum of the element sizes *)
Definition sumN {A} (f : A -> N) (l : list A) : N := fold_right (fun x acc => f x + acc) 0 l.

Lemma fold_left_size_sum {A} (t : ty) (f : A -> val) (l : list A) : forall a,
  fold_left (fun acc x => acc + size t x) (map f l) a = a + sumN (fun x => size t (f x)) l.
Proof.
  induction l as [|x l IH]; intro a; cbn [map fold_left sumN fold_right]; [lia|].
  rewrite IH. fold (sumN (fun x => size t (f x)) l). lia.
Qed.

Lemma size_vec_struct {A} (t : ty) (f : A -> val) (l : list A) :
  fixed_size t = None ->
  size (TVec t) (VVec (map f l)) = 8 + sumN (fun x => size t (f x)) l.
Proof.
  intro H. cbn [size]. rewrite H. rewrite fold_left_size_sum. lia.
Qed.

Lemma sumN_ext {A} (f g : A -> N) l : (forall x, In x l -> f x = g x) -> sumN f l = sumN g l.
Proof.
  induction l as [|x l IH]; intro H; [reflexivity|].
  cbn [sumN fold_right]. fold (sumN f l). fold (sumN g l).
  rewrite (H x (or_introl eq_refl)), IH; [reflexivity|]. intros y Hy. apply H. right. exact Hy.
Qed.

Lemma sumN_cons {A} (f : A -> N) x l : sumN f (x :: l) = f x + sumN f l.
Proof. reflexivity. Qed.
Lemma sumN_nil {A} (f : A -> N) : sumN f [] = 0.
Proof. reflexivity. Qed.

(* ---------- BitVector ---------- *)

Definition sz_bitvec (bv : bitvec) : N := 8 + 8 * lenN (bv_words bv) + 8.

Lemma size_bitvec bv : size ty_BitVector (v_bitvec bv) = sz_bitvec bv.
Proof.
  unfold ty_BitVector, v_bitvec, sz_bitvec.
  change (size (TStruct [TVec TU64; TU64]) (VStruct [v_nums (bv_words bv); VNum (bv_len bv)]))
    with (size (TVec TU64) (v_nums (bv_words bv)) + (8 + 0)).
  rewrite size_nums. lia.
Qed.

(* ---------- Rank9SelIndex / Rank9Sel ---------- *)

Definition sz_r9index (r : r9index) : N :=
  8 + (8 + 8 * lenN (r_brp r)) + opt_len (r_h1 r) + opt_len (r_h0 r).

Lemma size_r9index r : size ty_Rank9SelIndex (v_r9index r) = sz_r9index r.
Proof.
  unfold ty_Rank9SelIndex, v_r9index, sz_r9index.
  change (size (TStruct [TU64; TVec TU64; TOpt (TVec TU64); TOpt (TVec TU64)])
            (VStruct [VNum (r_len r); v_nums (r_brp r); v_optnums (r_h1 r); v_optnums (r_h0 r)]))
    with (8 + (size (TVec TU64) (v_nums (r_brp r))
               + (size (TOpt (TVec TU64)) (v_optnums (r_h1 r))
                  + (size (TOpt (TVec TU64)) (v_optnums (r_h0 r)) + 0)))).
  rewrite size_nums, !size_optnums. lia.
Qed.

Definition sz_r9sel (x : r9sel) : N := sz_bitvec (r9_bv x) + sz_r9index (r9_rs x).

Lemma size_r9sel x : size ty_Rank9Sel (v_r9sel x) = sz_r9sel x.
Proof.
  unfold ty_Rank9Sel, v_r9sel, sz_r9sel.
  change (size (TStruct [ty_BitVector; ty_Rank9SelIndex]) (VStruct [v_bitvec (r9_bv x); v_r9index (r9_rs x)]))
    with (size ty_BitVector (v_bitvec (r9_bv x)) + (size ty_Rank9SelIndex (v_r9index (r9_rs x)) + 0)).
  rewrite size_bitvec, size_r9index. lia.
Qed.

(* ---------- DArrayIndex / DArray ---------- *)

Definition sz_daindex (d : daindex) : N :=
  (8 + 8 * lenN (d_block_inv d)) + (8 + 2 * lenN (d_sub_inv d)) + (8 + 8 * lenN (d_overflow d)) + 8 + 1.

Lemma size_daindex d : size ty_DArrayIndex (v_daindex d) = sz_daindex d.
Proof.
  unfold ty_DArrayIndex, v_daindex, sz_daindex.
  change (size (TStruct [TVec TI64; TVec TU16; TVec TU64; TU64; TBool])
            (VStruct [VVec (map VInt (d_block_inv d)); v_nums (d_sub_inv d); v_nums (d_overflow d);
                      VNum (d_num_positions d); VBool (d_over_one d)]))
    with (size (TVec TI64) (VVec (map VInt (d_block_inv d)))
          + (size (TVec TU16) (v_nums (d_sub_inv d))
             + (size (TVec TU64) (v_nums (d_overflow d)) + (8 + (1 + 0))))).
  rewrite size_ints, size_nums16, size_nums. lia.
Qed.

Definition sz_opt {A} (f : A -> N) (o : option A) : N :=
  match o with Some x => f x + 1 | None => 1 end.

Lemma size_opt {A} (t : ty) (f : A -> val) (g : A -> N) (o : option A) :
  (forall x, size t (f x) = g x) ->
  size (TOpt t) (VOpt (option_map f o)) = sz_opt g o.
Proof.
  intro H. destruct o as [x|]; cbn [option_map sz_opt].
  - change (size (TOpt t) (VOpt (Some (f x)))) with (size t (f x) + 1). rewrite H. reflexivity.
  - reflexivity.
Qed.

Definition sz_darray (d : darray) : N :=
  sz_bitvec (da_bv d) + sz_daindex (da_s1 d) + sz_opt sz_daindex (da_s0 d) + sz_opt sz_r9index (da_r9 d).

Lemma size_darray d : size ty_DArray (v_darray d) = sz_darray d.
Proof.
  unfold ty_DArray, v_darray, sz_darray.
  change (size (TStruct [ty_BitVector; ty_DArrayIndex; TOpt ty_DArrayIndex; TOpt ty_Rank9SelIndex])
            (VStruct [v_bitvec (da_bv d); v_daindex (da_s1 d); VOpt (option_map v_daindex (da_s0 d));
                      VOpt (option_map v_r9index (da_r9 d))]))
    with (size ty_BitVector (v_bitvec (da_bv d))
          + (size ty_DArrayIndex (v_daindex (da_s1 d))
             + (size (TOpt ty_DArrayIndex) (VOpt (option_map v_daindex (da_s0 d)))
                + (size (TOpt ty_Rank9SelIndex) (VOpt (option_map v_r9index (da_r9 d))) + 0)))).
  rewrite size_bitvec, size_daindex.
  rewrite (size_opt ty_DArrayIndex v_daindex sz_daindex (da_s0 d) size_daindex).
  rewrite (size_opt ty_Rank9SelIndex v_r9index sz_r9index (da_r9 d) size_r9index).
  lia.
Qed.

(* ---------- EliasFano / SArray / PrefixSummedEliasFano ---------- *)

Definition sz_ef (e : eliasfano) : N := sz_darray (ef_high e) + sz_bitvec (ef_low e) + 16.

Lemma size_ef e : size ty_EliasFano (v_ef e) = sz_ef e.
Proof.
  unfold ty_EliasFano, v_ef, sz_ef.
  change (size (TStruct [ty_DArray; ty_BitVector; TU64; TU64])
            (VStruct [v_darray (ef_high e); v_bitvec (ef_low e); VNum (ef_low_len e); VNum (ef_universe e)]))
    with (size ty_DArray (v_darray (ef_high e)) + (size ty_BitVector (v_bitvec (ef_low e)) + (8 + (8 + 0)))).
  rewrite size_darray, size_bitvec. lia.
Qed.

Definition sz_sarray (s : sarray) : N := sz_opt sz_ef (sa_ef s) + 17.

Lemma size_sarray s : size ty_SArray (v_sarray s) = sz_sarray s.
Proof.
  unfold ty_SArray, v_sarray, sz_sarray.
  change (size (TStruct [TOpt ty_EliasFano; TU64; TU64; TBool])
            (VStruct [VOpt (option_map v_ef (sa_ef s)); VNum (sa_num_bits s); VNum (sa_num_ones s);
                      VBool (sa_has_rank s)]))
    with (size (TOpt ty_EliasFano) (VOpt (option_map v_ef (sa_ef s))) + (8 + (8 + (1 + 0)))).
  rewrite (size_opt ty_EliasFano v_ef sz_ef (sa_ef s) size_ef). lia.
Qed.

Lemma size_psef p : size ty_PrefixSummedEliasFano (v_psef p) = sz_ef (ps_ef p).
Proof.
  unfold ty_PrefixSummedEliasFano, v_psef.
  change (size (TStruct [ty_EliasFano]) (VStruct [v_ef (ps_ef p)])) with (size ty_EliasFano (v_ef (ps_ef p)) + 0).
  rewrite size_ef. lia.
Qed.

(* ---------- CompactVector ---------- *)

Definition sz_compvec (v : compvec) : N := sz_bitvec (cv_chunks v) + 16.

Lemma size_compvec v : size ty_CompactVector (v_compvec v) = sz_compvec v.
Proof.
  unfold ty_CompactVector, v_compvec, sz_compvec.
  change (size (TStruct [ty_BitVector; TU64; TU64]) (VStruct [v_bitvec (cv_chunks v); VNum (cv_len v); VNum (cv_width v)]))
    with (size ty_BitVector (v_bitvec (cv_chunks v)) + (8 + (8 + 0))).
  rewrite size_bitvec. lia.
Qed.

(* ---------- DacsByte / DacsOpt / WaveletMatrix<Rank9Sel> ---------- *)

Definition sz_dacsbyte (d : dacsbyte) : N :=
  (8 + sumN (fun l => 8 + lenN l) (db_data d)) + (8 + sumN sz_r9sel (db_flags d)).

Lemma size_dacsbyte d : size ty_DacsByte (v_dacsbyte d) = sz_dacsbyte d.
Proof.
  unfold ty_DacsByte, v_dacsbyte, sz_dacsbyte.
  change (size (TStruct [TVec (TVec TU8); TVec ty_Rank9Sel])
            (VStruct [VVec (map v_nums (db_data d)); VVec (map v_r9sel (db_flags d))]))
    with (size (TVec (TVec TU8)) (VVec (map v_nums (db_data d)))
          + (size (TVec ty_Rank9Sel) (VVec (map v_r9sel (db_flags d))) + 0)).
  rewrite (size_vec_struct (TVec TU8) v_nums) by reflexivity.
  rewrite (size_vec_struct ty_Rank9Sel v_r9sel) by reflexivity.
  rewrite (sumN_ext _ (fun l => 8 + lenN l)) by (intros; apply size_nums8).
  rewrite (sumN_ext _ sz_r9sel) by (intros; apply size_r9sel).
  lia.
Qed.

Definition sz_dacsopt (d : dacsopt) : N :=
  (8 + sumN sz_compvec (do_data d)) + (8 + sumN sz_r9sel (do_flags d)).

Lemma size_dacsopt d : size ty_DacsOpt (v_dacsopt d) = sz_dacsopt d.
Proof.
  unfold ty_DacsOpt, v_dacsopt, sz_dacsopt.
  change (size (TStruct [TVec ty_CompactVector; TVec ty_Rank9Sel])
            (VStruct [VVec (map v_compvec (do_data d)); VVec (map v_r9sel (do_flags d))]))
    with (size (TVec ty_CompactVector) (VVec (map v_compvec (do_data d)))
          + (size (TVec ty_Rank9Sel) (VVec (map v_r9sel (do_flags d))) + 0)).
  rewrite (size_vec_struct ty_CompactVector v_compvec) by reflexivity.
  rewrite (size_vec_struct ty_Rank9Sel v_r9sel) by reflexivity.
  rewrite (sumN_ext _ sz_compvec) by (intros; apply size_compvec).
  rewrite (sumN_ext _ sz_r9sel) by (intros; apply size_r9sel).
  lia.
Qed.

(* a wavelet matrix all of whose layers are Rank9Sel *)
Lemma size_wavelet_r9 (layers : list r9sel) (a : N) :
  size ty_WaveletMatrix_Rank9Sel (v_wavelet {| wm_layers := map BRank9 layers; wm_alph_size := a |})
  = 8 + sumN sz_r9sel layers + 8.
Proof.
  unfold ty_WaveletMatrix_Rank9Sel, v_wavelet. cbn [wm_layers wm_alph_size].
  rewrite map_map. cbn [v_backing].
  change (size (TStruct [TVec ty_Rank9Sel; TU64]) (VStruct [VVec (map (fun x => v_r9sel x) layers); VNum a]))
    with (size (TVec ty_Rank9Sel) (VVec (map (fun x => v_r9sel x) layers)) + (8 + 0)).
  rewrite (size_vec_struct ty_Rank9Sel (fun x => v_r9sel x)) by reflexivity.
  rewrite (sumN_ext _ sz_r9sel) by (intros; apply size_r9sel).
  lia.
Qed.

Print Assumptions size_bitvec.
Print Assumptions size_r9sel.
Print Assumptions size_darray.
Print Assumptions size_ef.
Print Assumptions size_sarray.
Print Assumptions size_psef.
Print Assumptions size_compvec.
Print Assumptions size_dacsbyte.
Print Assumptions size_dacsopt.
Print Assumptions size_wavelet_r9.
