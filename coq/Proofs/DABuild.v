(* Proofs/DABuild.v — property C02, construction half: `da_build` (src/bit_vectors/darray/inner.rs,
   DArrayIndex::build + flush_cur_block) succeeds in every configuration with one and the same
   index value, and that value satisfies the pointwise lookup invariant `look_ok` against the
   sorted list of positions `BitSpec.positions v (bits_of bv)`. *)
From Sucds Require Import Base.Res Spec.WordSpec Spec.BitSpec Model.BitVector Model.Rank9 Model.DArray
  Proofs.ResLemmas Proofs.BVAbs Proofs.WordLemmas Proofs.BVReads Proofs.BVReads2.
From Coq Require Import ZArith ZifyN ZifyBool ZifyNat Lia.
Ltac Zify.zify_post_hook ::= Z.div_mod_to_equations.
Open Scope N_scope.

(* ---------- small list facts ---------- *)

Lemma hd_nth0 (l : list N) : hd 0 l = nthN l 0 0.
Proof. destruct l; reflexivity. Qed.

Lemma last_nth (l : list N) : last l 0 = nthN l (lenN l - 1) 0.
Proof.
  unfold nthN, lenN. induction l as [|x l IH]; [reflexivity|].
  destruct l as [|y l]; [reflexivity|].
  change (last (x :: y :: l) 0) with (last (y :: l) 0). rewrite IH.
  cbn [length]. replace (N.to_nat (N.of_nat (S (S (length l))) - 1)) with (S (N.to_nat (N.of_nat (S (length l)) - 1))) by lia.
  reflexivity.
Qed.

Lemma last_opt_last (l : list N) : l <> [] -> last_opt l = Some (last l 0).
Proof.
  induction l as [|x l IH]; intro H; [congruence|].
  destruct l as [|y l]; [reflexivity|].
  change (last_opt (x :: y :: l)) with (last_opt (y :: l)).
  change (last (x :: y :: l) 0) with (last (y :: l) 0). apply IH. discriminate.
Qed.

Lemma In_nthN (l : list N) p : In p l -> exists j, j < lenN l /\ nthN l j 0 = p.
Proof.
  intro H. apply (In_nth _ _ 0) in H. destruct H as [n [Hn E]].
  exists (N.of_nat n). unfold nthN, lenN. rewrite Nat2N.id. split; [lia | exact E].
Qed.

Lemma In_skipn {A} (x : A) n l : In x (skipn n l) -> In x l.
Proof. intro H. rewrite <- (firstn_skipn n l). apply in_or_app. right. exact H. Qed.

(* ---------- step_by32 ---------- *)

Lemma step_by32_nth d : forall fuel l, (length l <= fuel)%nat ->
  forall t, nth t (step_by32 fuel l) d = nth (32 * t) l d.
Proof.
  induction fuel as [|f IH]; intros l Hl t.
  - destruct l as [|x l]; [|cbn [length] in Hl; lia].
    cbn [step_by32]. destruct t; destruct (32 * _)%nat; reflexivity.
  - destruct l as [|x l].
    + cbn [step_by32]. destruct t; destruct (32 * _)%nat; reflexivity.
    + cbn [step_by32]. destruct t as [|t].
      * reflexivity.
      * set (R := nth (32 * S t) (x :: l) d). cbn [nth]. subst R. rewrite IH by (rewrite skipn_length; cbn [length] in *; clear IH; lia).
        rewrite nth_skipn_add. f_equal. lia.
Qed.

Lemma step_by32_length : forall fuel l, (length l <= fuel)%nat ->
  length (step_by32 fuel l) = ((length l + 31) / 32)%nat.
Proof.
  induction fuel as [|f IH]; intros l Hl.
  - destruct l as [|x l]; [reflexivity | cbn [length] in Hl; lia].
  - destruct l as [|x l]; [reflexivity|].
    cbn [step_by32]. change (length (x :: step_by32 f (skipn 32 (x :: l)))) with (S (length (step_by32 f (skipn 32 (x :: l))))).
    rewrite IH by (rewrite skipn_length; cbn [length] in *; clear IH; lia).
    rewrite skipn_length. set (n := length (x :: l)). assert (1 <= n)%nat by (subst n; cbn [length]; lia).
    clearbody n. clear IH. lia.
Qed.

Lemma step_by32_In p : forall fuel l, In p (step_by32 fuel l) -> In p l.
Proof.
  induction fuel as [|f IH]; intros l H.
  - destruct l; destruct H.
  - destruct l as [|x l]; [destruct H|].
    cbn [step_by32] in H. destruct H as [<-|H]; [left; reflexivity|].
    apply IH in H. apply In_skipn in H. exact H.
Qed.

Lemma step_by32_lenN l : lenN (step_by32 (length l) l) = (lenN l + 31) / 32.
Proof. unfold lenN. rewrite step_by32_length by lia. lia. Qed.

Lemma step_by32_nthN l t : nthN (step_by32 (length l) l) t 0 = nthN l (32 * t) 0.
Proof. unfold nthN. rewrite step_by32_nth by lia. f_equal. lia. Qed.

(* ---------- the pure (configuration independent) build ---------- *)

Definition flush_pure (s : dastate) : dastate :=
  let first := hd 0 (t_cur s) in
  let heads := step_by32 (length (t_cur s)) (t_cur s) in
  if last (t_cur s) 0 - first <? MAX_IN_BLOCK_DISTANCE then
    {| t_cur := []; t_cnt := 0; t_binv := t_binv s ++ [Z.of_N first];
       t_sinv := t_sinv s ++ map (fun p => p - first) heads; t_ovf := t_ovf s; t_num := t_num s |}
  else
    {| t_cur := []; t_cnt := 0; t_binv := t_binv s ++ [Z.opp (Z.of_N (lenN (t_ovf s) + 1))];
       t_sinv := t_sinv s ++ map (fun _ => 65535) heads;
       t_ovf := t_ovf s ++ t_cur s; t_num := t_num s |}.

Definition push_pure (s : dastate) (p : N) : dastate :=
  let s1 := {| t_cur := t_cur s ++ [p]; t_cnt := t_cnt s + 1; t_binv := t_binv s;
               t_sinv := t_sinv s; t_ovf := t_ovf s; t_num := t_num s |} in
  let s2 := if t_cnt s1 =? DA_BLOCK_LEN then flush_pure s1 else s1 in
  {| t_cur := t_cur s2; t_cnt := t_cnt s2; t_binv := t_binv s2; t_sinv := t_sinv s2;
     t_ovf := t_ovf s2; t_num := t_num s2 + 1 |}.

(* one loop body of DArrayIndex::build after the `cur_pos >= num_bits` test *)
Definition push_pos (c : cfg) (s : dastate) (p : N) : res dastate :=
  let s1 := {| t_cur := t_cur s ++ [p]; t_cnt := t_cnt s + 1; t_binv := t_binv s;
               t_sinv := t_sinv s; t_ovf := t_ovf s; t_num := t_num s |} in
  s2 <- (if t_cnt s1 =? DA_BLOCK_LEN then flush_cur_block c s1 else Ok s1) ;;
  n <- add c (t_num s2) 1 ;;
  Ok {| t_cur := t_cur s2; t_cnt := t_cnt s2; t_binv := t_binv s2; t_sinv := t_sinv s2;
        t_ovf := t_ovf s2; t_num := n |}.

Definition da_init : dastate :=
  {| t_cur := []; t_cnt := 0; t_binv := []; t_sinv := []; t_ovf := []; t_num := 0 |}.

Definition da_finish (v : bool) (s : dastate) : daindex :=
  let s := if negb (t_cnt s =? 0) then flush_pure s else s in
  {| d_block_inv := t_binv s; d_sub_inv := t_sinv s; d_overflow := t_ovf s;
     d_num_positions := t_num s; d_over_one := v |}.

Definition da_pure (v : bool) (P : list N) : daindex := da_finish v (fold_left push_pure P da_init).

Lemma fold_subs_ok c first : forall heads acc,
  (forall p, In p heads -> first <= p /\ p - first < 65536) ->
  fold_res (fun acc p => t <- sub c p first ;; Ok (acc ++ [t mod 65536])) heads acc
  = Ok (acc ++ map (fun p => p - first) heads).
Proof.
  induction heads as [|p heads IH]; intros acc H.
  - cbn [fold_res map]. rewrite app_nil_r. reflexivity.
  - cbn [fold_res map]. destruct (H p (or_introl eq_refl)) as [H1 H2].
    rewrite sub_ok by exact H1. cbn [bind]. rewrite N.mod_small by exact H2.
    rewrite IH by (intros q Hq; apply H; right; exact Hq).
    rewrite <- app_assoc. reflexivity.
Qed.

Lemma flush_ok c s :
  0 < lenN (t_cur s) ->
  (forall j, j < lenN (t_cur s) ->
     nthN (t_cur s) 0 0 <= nthN (t_cur s) j 0 <= nthN (t_cur s) (lenN (t_cur s) - 1) 0) ->
  lenN (t_ovf s) + 1 < W ->
  flush_cur_block c s = Ok (flush_pure s).
Proof.
  intros Hne Hs Ho. unfold flush_cur_block, flush_pure.
  assert (Hnil : t_cur s <> []) by (intro E; rewrite E in Hne; unfold lenN in Hne; cbn in Hne; lia).
  rewrite last_opt_last by exact Hnil.
  assert (Hh : hd_error (t_cur s) = Some (hd 0 (t_cur s))) by (destruct (t_cur s); [congruence | reflexivity]).
  rewrite Hh. cbn [unwrap bind]. rewrite hd_nth0, last_nth.
  rewrite sub_ok by (apply (Hs 0); exact Hne). cbn [bind].
  destruct (N.ltb_spec (nthN (t_cur s) (lenN (t_cur s) - 1) 0 - nthN (t_cur s) 0 0) MAX_IN_BLOCK_DISTANCE) as [Hd|Hd].
  - rewrite fold_subs_ok; [reflexivity|].
    intros p Hp. apply step_by32_In, In_nthN in Hp. destruct Hp as [j [Hj <-]].
    specialize (Hs j Hj). unfold MAX_IN_BLOCK_DISTANCE in Hd. lia.
  - rewrite add_ok by exact Ho. reflexivity.
Qed.

(* ---------- the lookup invariant ---------- *)

(* strictly increasing list *)
Definition incr (L : list N) : Prop := forall i j, i < j -> j < lenN L -> nthN L i 0 < nthN L j 0.

(* what `select` reads for argument k is right: the overflow entry is the k-th position, or
   block + subblock entries give the position of rank 32 * (k / 32) *)
Definition look_ok (P : list N) (binv : list Z) (sinv ovf : list N) (k : N) : Prop :=
  k / 1024 < lenN binv /\
  let e := nthN binv (k / 1024) 0%Z in
  if (e <? 0)%Z then
    Z.to_N (- e - 1) + k mod 1024 < lenN ovf /\
    nthN ovf (Z.to_N (- e - 1) + k mod 1024) 0 = nthN P k 0
  else
    k / 32 < lenN sinv /\ Z.to_N e + nthN sinv (k / 32) 0 = nthN P (32 * (k / 32)) 0.

Lemma incr_app_l A B : incr (A ++ B) -> incr A.
Proof.
  intros H i j Hij Hj. specialize (H i j Hij). rewrite lenN_app in H.
  rewrite !nthN_app_l in H by lia. apply H. lia.
Qed.

Lemma incr_le L i j : incr L -> i <= j -> j < lenN L -> nthN L i 0 <= nthN L j 0.
Proof.
  intros H Hij Hj. destruct (N.eq_dec i j) as [->|Hne]; [lia|].
  apply N.lt_le_incl, H; lia.
Qed.

Lemma look_ok_app P P' b b' s s' o o' k : k < lenN P ->
  look_ok P b s o k -> look_ok (P ++ P') (b ++ b') (s ++ s') (o ++ o') k.
Proof.
  unfold look_ok. intros Hk [H1 H2]. split; [rewrite lenN_app; lia|].
  cbv zeta in *. rewrite nthN_app_l by exact H1.
  destruct (nthN b (k / 1024) 0%Z <? 0)%Z.
  - destruct H2 as [H2 H3]. split; [rewrite lenN_app; lia|].
    rewrite !nthN_app_l by assumption. exact H3.
  - destruct H2 as [H2 H3]. split; [rewrite lenN_app; lia|].
    rewrite !nthN_app_l by (try assumption; lia). exact H3.
Qed.

Lemma look_ok_P_app P P' b s o k : k < lenN P -> look_ok P b s o k -> look_ok (P ++ P') b s o k.
Proof.
  intros Hk H. apply (look_ok_app P P' b [] s [] o [] k Hk) in H.
  rewrite !app_nil_r in H. exact H.
Qed.

Lemma nthN_map_sub (l : list N) a t : nthN (map (fun p => p - a) l) t 0 = nthN l t 0 - a.
Proof. unfold nthN. change 0 with ((fun p => p - a) 0) at 1. apply map_nth. Qed.

Lemma nthN_single {A} (x d : A) : nthN [x] 0 d = x.
Proof. reflexivity. Qed.

(* flushing the current group of cnt positions P[1024 G .. 1024 G + cnt) *)
Lemma flush_pure_inv P s G cnt :
  incr P -> 1024 * G + cnt <= lenN P -> 0 < cnt <= 1024 ->
  lenN (t_cur s) = cnt ->
  (forall j, j < cnt -> nthN (t_cur s) j 0 = nthN P (1024 * G + j) 0) ->
  lenN (t_binv s) = G -> lenN (t_sinv s) = 32 * G -> lenN (t_ovf s) <= 1024 * G ->
  (forall k, k < 1024 * G -> look_ok P (t_binv s) (t_sinv s) (t_ovf s) k) ->
  let s' := flush_pure s in
  t_cur s' = [] /\ t_cnt s' = 0 /\ t_num s' = t_num s /\
  lenN (t_binv s') = G + 1 /\ lenN (t_sinv s') = 32 * G + (cnt + 31) / 32 /\
  lenN (t_ovf s') <= 1024 * G + cnt /\
  (forall k, k < 1024 * G + cnt -> look_ok P (t_binv s') (t_sinv s') (t_ovf s') k).
Proof.
  intros Hinc HP Hcnt Hlc Hcur Hlb Hls Hlo Hold. cbv zeta. unfold flush_pure.
  rewrite hd_nth0, last_nth.
  pose proof (step_by32_lenN (t_cur s)) as Hlh. rewrite Hlc in Hlh.
  destruct (N.ltb_spec (nthN (t_cur s) (lenN (t_cur s) - 1) 0 - nthN (t_cur s) 0 0) MAX_IN_BLOCK_DISTANCE) as [Hd|Hd];
    cbn [t_cur t_cnt t_num t_binv t_sinv t_ovf].
  - do 3 (split; [reflexivity|]).
    split; [rewrite lenN_app, Hlb; reflexivity|].
    split; [rewrite lenN_app, lenN_map, Hls, Hlh; reflexivity|].
    split; [lia|].
    { intros k Hk. destruct (N.ltb_spec k (1024 * G)) as [Hlt|Hge].
      * specialize (Hold k Hlt).
        apply (look_ok_app P [] _ [Z.of_N (nthN (t_cur s) 0 0)] _
                 (map (fun p => p - nthN (t_cur s) 0 0) (step_by32 (length (t_cur s)) (t_cur s))) _ [] k) in Hold;
          [|lia]. rewrite !app_nil_r in Hold. exact Hold.
      * unfold look_ok. rewrite lenN_app, Hlb. split; [rewrite lenN_cons, lenN_nil; lia|]. cbv zeta.
        assert (Ek : k / 1024 = G) by lia.
        rewrite Ek, nthN_app_r by lia. rewrite Hlb, N.sub_diag, nthN_single.
        destruct (Z.ltb_spec (Z.of_N (nthN (t_cur s) 0 0)) 0) as [Hz|Hz]; [lia|].
        rewrite lenN_app, lenN_map, Hls, Hlh. split; [lia|].
        rewrite nthN_app_r by lia. rewrite Hls, nthN_map_sub, step_by32_nthN.
        rewrite !Hcur by lia. rewrite N2Z.id.
        assert (nthN P (1024 * G + 0) 0 <= nthN P (1024 * G + 32 * (k / 32 - 32 * G)) 0)
          by (apply incr_le; [exact Hinc | lia | lia]).
        replace (32 * (k / 32)) with (1024 * G + 32 * (k / 32 - 32 * G)) by lia. lia. }
  - do 3 (split; [reflexivity|]).
    split; [rewrite lenN_app, Hlb; reflexivity|].
    split; [rewrite lenN_app, lenN_map, Hls, Hlh; reflexivity|].
    split; [rewrite lenN_app, Hlc; lia|].
    { intros k Hk. destruct (N.ltb_spec k (1024 * G)) as [Hlt|Hge].
      * specialize (Hold k Hlt).
        apply (look_ok_app P [] _ [(- Z.of_N (lenN (t_ovf s) + 1))%Z] _
                 (map (fun _ => 65535) (step_by32 (length (t_cur s)) (t_cur s))) _ (t_cur s) k) in Hold;
          [|lia]. rewrite !app_nil_r in Hold. exact Hold.
      * unfold look_ok. rewrite lenN_app, Hlb. split; [rewrite lenN_cons, lenN_nil; lia|]. cbv zeta.
        assert (Ek : k / 1024 = G) by lia.
        rewrite Ek, nthN_app_r by lia. rewrite Hlb, N.sub_diag, nthN_single.
        destruct (Z.ltb_spec (- Z.of_N (lenN (t_ovf s) + 1)) 0) as [Hz|Hz]; [|lia].
        replace (Z.to_N (- - Z.of_N (lenN (t_ovf s) + 1) - 1)) with (lenN (t_ovf s)) by lia.
        rewrite lenN_app, Hlc. split; [lia|].
        rewrite nthN_app_r by lia.
        replace (lenN (t_ovf s) + k mod 1024 - lenN (t_ovf s)) with (k - 1024 * G) by lia.
        rewrite Hcur by lia. f_equal. lia. }
Qed.

(* ---------- the build loop over the list of positions ---------- *)

Definition Inv (pre : list N) (s : dastate) : Prop :=
  t_num s = lenN pre /\ t_cnt s = lenN pre mod 1024 /\ lenN (t_cur s) = t_cnt s /\
  (forall j, j < t_cnt s -> nthN (t_cur s) j 0 = nthN pre (1024 * (lenN pre / 1024) + j) 0) /\
  lenN (t_binv s) = lenN pre / 1024 /\ lenN (t_sinv s) = 32 * (lenN pre / 1024) /\
  lenN (t_ovf s) <= 1024 * (lenN pre / 1024) /\
  (forall k, k < 1024 * (lenN pre / 1024) -> look_ok pre (t_binv s) (t_sinv s) (t_ovf s) k).

Lemma Inv_s0 : Inv [] da_init.
Proof.
  unfold Inv, da_init. cbn [t_num t_cnt t_cur t_binv t_sinv t_ovf].
  change (lenN (@nil N)) with 0. change (lenN (@nil Z)) with 0.
  change (0 mod 1024) with 0. change (0 / 1024) with 0.
  repeat (split; [try reflexivity; try lia|]); intros; lia.
Qed.

Lemma push_inv c pre s p : incr (pre ++ [p]) -> lenN (pre ++ [p]) < 2 ^ 56 -> Inv pre s ->
  push_pos c s p = Ok (push_pure s p) /\ Inv (pre ++ [p]) (push_pure s p).
Proof.
  intros Hinc Hlen (Hn & Hc & Hlc & Hcur & Hlb & Hls & Hlo & Hold).
  change (2 ^ 56) with 72057594037927936 in Hlen.
  assert (HL : lenN (pre ++ [p]) = lenN pre + 1) by (rewrite lenN_app, lenN_cons, lenN_nil; lia).
  set (G := lenN pre / 1024) in *.
  (* facts about the state after the push *)
  set (s1 := {| t_cur := t_cur s ++ [p]; t_cnt := t_cnt s + 1; t_binv := t_binv s;
                t_sinv := t_sinv s; t_ovf := t_ovf s; t_num := t_num s |}).
  assert (Hlc1 : lenN (t_cur s1) = t_cnt s + 1)
    by (subst s1; cbn [t_cur]; rewrite lenN_app, lenN_cons, lenN_nil; lia).
  assert (Hcur1 : forall j, j < t_cnt s + 1 -> nthN (t_cur s1) j 0 = nthN (pre ++ [p]) (1024 * G + j) 0).
  { intros j Hj. subst s1. cbn [t_cur]. destruct (N.ltb_spec j (t_cnt s)) as [Hlt|Hge].
    - rewrite !nthN_app_l by (subst G; lia). apply Hcur, Hlt.
    - rewrite !nthN_app_r by (subst G; lia). f_equal. subst G. lia. }
  assert (Hold1 : forall k, k < 1024 * G -> look_ok (pre ++ [p]) (t_binv s1) (t_sinv s1) (t_ovf s1) k).
  { intros k Hk. apply look_ok_P_app; [subst G; lia | apply Hold, Hk]. }
  unfold push_pos, push_pure. fold s1. cbv zeta.
  change (t_cnt s1) with (t_cnt s + 1). unfold DA_BLOCK_LEN.
  destruct (N.eqb_spec (t_cnt s + 1) 1024) as [Hfull|Hnf].
  - (* flush *)
    destruct (flush_pure_inv (pre ++ [p]) s1 G 1024 Hinc) as (F1 & F2 & F3 & F4 & F5 & F6 & F7).
    { rewrite HL. subst G. lia. }
    { lia. }
    { rewrite Hlc1. exact Hfull. }
    { intros j Hj. apply Hcur1. lia. }
    { exact Hlb. }
    { exact Hls. }
    { exact Hlo. }
    { exact Hold1. }
    rewrite flush_ok.
    + cbn [bind]. rewrite F3. change (t_num s1) with (t_num s).
      rewrite add_ok by (unfold W; lia). cbn [bind]. split; [reflexivity|].
      unfold Inv. cbn [t_num t_cnt t_cur t_binv t_sinv t_ovf]. rewrite F1, F2, HL.
      assert (E1 : (lenN pre + 1) mod 1024 = 0) by (subst G; lia).
      assert (E2 : (lenN pre + 1) / 1024 = G + 1) by (subst G; lia).
      rewrite E1, E2.
      split; [lia|]. split; [reflexivity|]. split; [reflexivity|]. split; [intros; lia|].
      split; [exact F4|]. split; [rewrite F5; change ((1024 + 31) / 32) with 32; lia|]. split; [lia|].
      intros k Hk. apply F7. lia.
    + rewrite Hlc1. lia.
    + rewrite Hlc1. intros j Hj. rewrite !Hcur1 by lia.
      split; apply incr_le; try exact Hinc; subst G; lia.
    + change (t_ovf s1) with (t_ovf s). unfold W. subst G. lia.
  - cbn [bind]. change (t_num s1) with (t_num s).
    rewrite add_ok by (unfold W; lia). cbn [bind]. split; [reflexivity|].
    unfold Inv. cbn [t_num t_cnt t_cur t_binv t_sinv t_ovf]. rewrite HL.
    assert (E1 : (lenN pre + 1) mod 1024 = t_cnt s + 1) by (subst G; lia).
    assert (E2 : (lenN pre + 1) / 1024 = G) by (subst G; lia).
    rewrite E1, E2.
    split; [lia|]. split; [reflexivity|]. split; [exact Hlc1|]. split; [exact Hcur1|].
    split; [exact Hlb|]. split; [exact Hls|]. split; [exact Hlo|]. exact Hold1.
Qed.

Lemma fold_push_inv c : forall l pre s, incr (pre ++ l) -> lenN (pre ++ l) < 2 ^ 56 -> Inv pre s ->
  fold_res (push_pos c) l s = Ok (fold_left push_pure l s) /\ Inv (pre ++ l) (fold_left push_pure l s).
Proof.
  induction l as [|p l IH]; intros pre s Hinc Hlen HI.
  - cbn [fold_res fold_left]. rewrite app_nil_r. split; [reflexivity | exact HI].
  - replace (pre ++ p :: l) with ((pre ++ [p]) ++ l) in * by (rewrite <- app_assoc; reflexivity).
    destruct (push_inv c pre s p) as [E HI'].
    + apply incr_app_l in Hinc. exact Hinc.
    + rewrite lenN_app in Hlen. lia.
    + exact HI.
    + cbn [fold_res fold_left]. rewrite E. cbn [bind]. apply IH; assumption.
Qed.

(* the finished index *)
Definition index_ok (P : list N) (d : daindex) : Prop :=
  d_num_positions d = lenN P /\ lenN (d_overflow d) <= lenN P /\
  forall k, k < lenN P -> look_ok P (d_block_inv d) (d_sub_inv d) (d_overflow d) k.

Lemma finish_ok c v P : incr P -> lenN P < 2 ^ 56 ->
  (s <- fold_res (push_pos c) P da_init ;;
   s <- (if negb (t_cnt s =? 0) then flush_cur_block c s else Ok s) ;;
   Ok {| d_block_inv := t_binv s; d_sub_inv := t_sinv s; d_overflow := t_ovf s;
         d_num_positions := t_num s; d_over_one := v |}) = Ok (da_pure v P) /\
  index_ok P (da_pure v P) /\ d_over_one (da_pure v P) = v.
Proof.
  intros Hinc Hlen.
  destruct (fold_push_inv c P [] da_init Hinc Hlen Inv_s0) as [E HI].
  cbn [app] in HI. rewrite E. cbn [bind]. unfold da_pure, da_finish.
  set (s := fold_left push_pure P da_init) in *.
  destruct HI as (Hn & Hc & Hlc & Hcur & Hlb & Hls & Hlo & Hold).
  change (2 ^ 56) with 72057594037927936 in Hlen.
  destruct (N.eqb_spec (t_cnt s) 0) as [Hz|Hnz]; cbn [negb].
  - cbn [bind]. split; [reflexivity|]. split; [|reflexivity].
    unfold index_ok. cbn [d_num_positions d_block_inv d_sub_inv d_overflow].
    split; [exact Hn|]. split; [lia|]. intros k Hk. apply Hold. lia.
  - destruct (flush_pure_inv P s (lenN P / 1024) (t_cnt s)) as (F1 & F2 & F3 & F4 & F5 & F6 & F7);
      try assumption; try lia.
    rewrite flush_ok.
    + cbn [bind]. split; [reflexivity|]. split; [|reflexivity].
      unfold index_ok. cbn [d_num_positions d_block_inv d_sub_inv d_overflow].
      split; [rewrite F3; exact Hn|]. split; [lia|]. intros k Hk. apply F7. lia.
    + lia.
    + intros j Hj. rewrite !Hcur by lia. split; apply incr_le; try exact Hinc; lia.
    + unfold W. lia.
Qed.

(* ---------- enumerating the set bits of one word with lsb ---------- *)

Lemma bits_n_split n a X : (a <= n)%nat ->
  bits_n n X = bits_n a X ++ bits_n (n - a) (X / 2 ^ N.of_nat a).
Proof.
  intro H. apply nth_ext with (d := false) (d' := false).
  - rewrite app_length, !bits_n_len. lia.
  - intros i Hi. rewrite bits_n_len in Hi. rewrite bits_n_nth' by exact Hi.
    destruct (Nat.ltb_spec i a) as [Hlt|Hge].
    + rewrite app_nth1 by (rewrite bits_n_len; exact Hlt). rewrite bits_n_nth' by exact Hlt. reflexivity.
    + rewrite app_nth2 by (rewrite bits_n_len; exact Hge). rewrite bits_n_len.
      rewrite bits_n_nth' by lia. rewrite testbit_div_pow2. f_equal. lia.
Qed.

Lemma positions_bits_n_lsb n X l base :
  X < 2 ^ N.of_nat n -> N.testbit X l = true -> (forall j, j < l -> N.testbit X j = false) ->
  l < N.of_nat n /\
  positions_from true (bits_n n X) base
  = (base + l) :: positions_from true (bits_n (n - N.to_nat l - 1) (X / 2 ^ l / 2)) (base + l + 1).
Proof.
  intros HX Hl Hlow.
  assert (Hln : l < N.of_nat n).
  { destruct (N.lt_ge_cases l (N.of_nat n)) as [H|H]; [exact H|].
    rewrite (testbit_high X (N.of_nat n) l HX H) in Hl. discriminate. }
  split; [exact Hln|].
  rewrite (bits_n_split n (N.to_nat l) X) by lia. rewrite N2Nat.id.
  rewrite positions_from_app.
  rewrite (positions_from_none true (bits_n (N.to_nat l) X)).
  - cbn [app]. unfold lenN. rewrite bits_n_len, N2Nat.id.
    set (m := (n - N.to_nat l - 1)%nat). replace (n - N.to_nat l)%nat with (S m) by lia.
    cbn [bits_n positions_from].
    rewrite <- N.bit0_odd, testbit_div_pow2, N.add_0_l, Hl. cbn [Bool.eqb].
    rewrite N.div2_div. reflexivity.
  - intros x Hx. apply (In_nth _ _ false) in Hx. destruct Hx as [i [Hi <-]].
    rewrite bits_n_len in Hi. rewrite bits_n_nth' by exact Hi. rewrite Hlow by lia. discriminate.
Qed.

Lemma filter_lt_nil len L : (forall p, In p L -> len <= p) -> filter (fun p => p <? len) L = [].
Proof.
  induction L as [|x L IH]; intro H; [reflexivity|].
  cbn [filter]. destruct (N.ltb_spec x len) as [Hlt|Hge].
  - specialize (H x (or_introl eq_refl)). lia.
  - apply IH. intros p Hp. apply H. right. exact Hp.
Qed.

Lemma filter_lt_all len L : (forall p, In p L -> p < len) -> filter (fun p => p <? len) L = L.
Proof.
  induction L as [|x L IH]; intro H; [reflexivity|].
  cbn [filter]. destruct (N.ltb_spec x len) as [Hlt|Hge].
  - f_equal. apply IH. intros p Hp. apply H. right. exact Hp.
  - specialize (H x (or_introl eq_refl)). lia.
Qed.

(* one iteration of the `while let Some(l) = lsb(cur_word)` loop that records a position *)
Lemma word_step_push c len s cp cw l :
  lsb_spec cw = Some l -> l < 64 -> cp + l + 1 < W -> cp + l < len ->
  word_step c len (s, cp, cw)
  = s' <- push_pos c s (cp + l) ;; Ok (inl (s', cp + l + 1, cw / 2 ^ l / 2)).
Proof.
  intros El Hl Hb Hlt. unfold word_step. rewrite El.
  rewrite add_ok by lia. cbn [bind]. rewrite shr_ok by exact Hl. cbn [bind].
  destruct (N.leb_spec len (cp + l)) as [H|_]; [lia|].
  unfold push_pos. cbv zeta.
  match goal with |- context [if ?b then flush_cur_block c ?x else Ok ?y] =>
    destruct (if b then flush_cur_block c x else Ok y) as [s2|] end; [|reflexivity].
  cbn [bind]. rewrite shr_ok by lia. cbn [bind]. rewrite add_ok by lia. cbn [bind].
  rewrite N.pow_1_r.
  destruct (add c (t_num s2) 1) as [n'|]; reflexivity.
Qed.

Lemma word_loop c len : forall fuel n X base s,
  (n < fuel)%nat -> (n <= 64)%nat -> X < 2 ^ N.of_nat n -> base + N.of_nat n < W ->
  iter_fuel fuel (word_step c len) (s, base, X)
  = fold_res (push_pos c) (filter (fun p => p <? len) (positions_from true (bits_n n X) base)) s.
Proof.
  induction fuel as [|f IH]; intros n X base s Hf Hn HX Hb; [lia|].
  cbn [iter_fuel].
  destruct (lsb_spec X) as [l|] eqn:El.
  - destruct (lsb_spec_Some X l El) as [H1 H2].
    destruct (positions_bits_n_lsb n X l base HX H1 H2) as [Hln Epos].
    rewrite Epos. cbn [filter].
    destruct (N.ltb_spec (base + l) len) as [Hlt|Hge].
    + rewrite (word_step_push c len s base X l) by (try assumption; lia).
      cbn [fold_res]. rewrite bind_assoc.
      destruct (push_pos c s (base + l)) as [s'|]; [|reflexivity]. cbn [bind].
      apply IH; try lia.
      replace (N.of_nat (n - N.to_nat l - 1)) with (N.of_nat n - l - 1) by lia.
      apply N.div_lt_upper_bound; [lia|]. apply N.div_lt_upper_bound; [apply N.pow_nonzero; lia|].
      replace (2 ^ l * (2 * 2 ^ (N.of_nat n - l - 1))) with (2 ^ N.of_nat n); [exact HX|].
      rewrite <- N.pow_succ_r', <- N.pow_add_r. f_equal. lia.
    + rewrite filter_lt_nil.
      * unfold word_step. rewrite El. rewrite add_ok by lia. cbn [bind].
        rewrite shr_ok by lia. cbn [bind].
        destruct (N.leb_spec len (base + l)) as [_|H]; [reflexivity | lia].
      * intros p Hp. apply positions_from_range in Hp. lia.
  - apply lsb_spec_None in El. subst X. unfold word_step. change (lsb_spec 0) with (@None N).
    cbn [bind]. rewrite positions_from_bits_n_zero. reflexivity.
Qed.

(* ---------- the loop over the words ---------- *)

Lemma build_word_eq c v len s wi w : w < W -> 64 * wi + 64 < W ->
  build_word c v len (s, wi) w
  = s' <- fold_res (push_pos c) (filter (fun p => p <? len) (positions_from v (word_bits w) (64 * wi))) s ;;
    Ok (s', wi + 1).
Proof.
  intros Hw Hb. unfold build_word. rewrite mul_ok by lia. cbn [bind].
  assert (Ha : (if v then w else not64 w) < W) by (destruct v; [exact Hw | apply not64_lt, Hw]).
  rewrite (word_loop c len 66 64); try lia.
  - replace (wi * 64) with (64 * wi) by lia.
    replace (positions_from true (bits_n 64 (if v then w else not64 w)) (64 * wi))
      with (positions_from v (word_bits w) (64 * wi)); [reflexivity|].
    destruct v; [reflexivity|].
    rewrite positions_from_false_map_negb, <- word_bits_not64. reflexivity.
  - exact Ha.
Qed.

Lemma build_words_eq c v len : forall ws s wi, Forall (fun w => w < W) ws -> 64 * (wi + lenN ws) + 64 < W ->
  fold_res (build_word c v len) ws (s, wi)
  = s' <- fold_res (push_pos c) (filter (fun p => p <? len) (positions_from v (flat_bits ws) (64 * wi))) s ;;
    Ok (s', wi + lenN ws).
Proof.
  induction ws as [|w ws IH]; intros s wi Hall Hb.
  - cbn [fold_res]. change (flat_bits []) with (@nil bool). cbn [positions_from filter fold_res bind].
    rewrite lenN_nil, N.add_0_r. reflexivity.
  - inversion Hall as [|w' ws' Hw Hws]; subst. rewrite lenN_cons in Hb.
    cbn [fold_res]. rewrite build_word_eq by (try assumption; lia).
    rewrite flat_bits_cons, positions_from_app, filter_app, fold_res_app, !bind_assoc.
    destruct (fold_res (push_pos c) _ s) as [s1|]; [|reflexivity]. cbn [bind].
    rewrite IH by (try assumption; lia).
    assert (Hlw : lenN (word_bits w) = 64) by (unfold lenN; rewrite word_bits_length; reflexivity).
    rewrite Hlw, lenN_cons.
    replace (64 * (wi + 1)) with (64 * wi + 64) by lia.
    replace (wi + 1 + lenN ws) with (wi + (lenN ws + 1)) by lia. reflexivity.
Qed.

(* the positions below len in the word list are the positions of the denoted sequence *)
Lemma positions_bits_of v bv : wf bv ->
  filter (fun p => p <? bv_len bv) (positions_from v (flat_bits (bv_words bv)) 0) = positions v (bits_of bv).
Proof.
  intro Hwf. rewrite (flat_bits_split bv) at 1. rewrite positions_from_app, filter_app.
  rewrite N.add_0_l, (bits_of_length bv Hwf).
  rewrite filter_lt_all, filter_lt_nil.
  - apply app_nil_r.
  - intros p Hp. apply positions_from_range in Hp. lia.
  - intros p Hp. apply positions_from_range in Hp. rewrite (bits_of_length bv Hwf) in Hp. lia.
Qed.

Lemma incr_positions_from v l : forall o, incr (positions_from v l o).
Proof.
  induction l as [|x l IH]; intro o.
  - intros i j Hij Hj. cbn [positions_from] in Hj. rewrite lenN_nil in Hj. lia.
  - cbn [positions_from]. destruct (Bool.eqb x v); [|apply IH].
    intros i j Hij Hj. rewrite lenN_cons in Hj.
    unfold nthN. replace (N.to_nat j) with (S (N.to_nat (j - 1))) by lia. cbn [nth].
    destruct (N.eq_dec i 0) as [->|Hi].
    + change (N.to_nat 0) with 0%nat. cbn [nth].
      assert (Hin : In (nth (N.to_nat (j - 1)) (positions_from v l (o + 1)) 0) (positions_from v l (o + 1))).
      { apply nth_In. unfold lenN in Hj. lia. }
      apply positions_from_range in Hin. lia.
    + replace (N.to_nat i) with (S (N.to_nat (i - 1))) by lia. cbn [nth].
      apply (IH (o + 1) (i - 1) (j - 1)); lia.
Qed.

Theorem da_build_ok bv v : wf bv -> cap_ok bv ->
  (forall c, da_build c bv v = Ok (da_pure v (positions v (bits_of bv)))) /\
  index_ok (positions v (bits_of bv)) (da_pure v (positions v (bits_of bv))) /\
  d_over_one (da_pure v (positions v (bits_of bv))) = v.
Proof.
  intros Hwf Hcap. pose proof (cap_W bv Hcap) as Hc. pose proof (wf_nwords bv Hwf) as Hn.
  assert (Hall : Forall (fun w => w < W) (bv_words bv)) by (destruct Hwf as [_ [H _]]; exact H).
  assert (Hinc : incr (positions v (bits_of bv))) by apply incr_positions_from.
  assert (Hlen : lenN (positions v (bits_of bv)) < 2 ^ 56).
  { unfold positions. rewrite positions_from_len.
    pose proof (count_le_len v (bits_of bv)) as H. rewrite (bits_of_length bv Hwf) in H.
    unfold cap_ok in Hcap. lia. }
  split.
  - intro c. unfold da_build.
    rewrite build_words_eq by (try exact Hall; unfold W; lia).
    rewrite N.mul_0_r, positions_bits_of by exact Hwf.
    destruct (finish_ok c v _ Hinc Hlen) as [E _].
    rewrite <- E. rewrite bind_assoc.
    destruct (fold_res (push_pos c) (positions v (bits_of bv)) _) as [s|]; reflexivity.
  - destruct (finish_ok {| dbg := true; intr := false |} v _ Hinc Hlen) as [_ H]. exact H.
Qed.
