(* Proofs/ResLemmas.v — stepping lemmas for the checked/wrapping primitives of Base/Res.v
   (technique T6 of DESIGN.md): under the stated bound a primitive returns Ok of the exact
   mathematical result, in every configuration. *)
From Sucds Require Import Base.Res.
From Coq Require Import ZArith ZifyN ZifyBool ZifyNat Lia.
Ltac Zify.zify_post_hook ::= Z.div_mod_to_equations.
Open Scope N_scope.

Lemma W_eq : W = 2 ^ 64. Proof. reflexivity. Qed.
Lemma MASK64_eq : MASK64 = N.ones 64. Proof. reflexivity. Qed.
Lemma MASK64_W : MASK64 = W - 1. Proof. reflexivity. Qed.

Lemma wrap_mod x : wrap x = x mod W.
Proof. unfold wrap. rewrite MASK64_eq, N.land_ones. reflexivity. Qed.
Lemma wrap_small x : x < W -> wrap x = x.
Proof. intro H. rewrite wrap_mod. apply N.mod_small, H. Qed.
Lemma wrap_lt x : wrap x < W.
Proof. rewrite wrap_mod. apply N.mod_lt. discriminate. Qed.

Lemma add_ok c a b : a + b < W -> add c a b = Ok (a + b).
Proof. intro H. unfold add. apply N.ltb_lt in H. cbv zeta. rewrite H. reflexivity. Qed.
Lemma sub_ok c a b : b <= a -> sub c a b = Ok (a - b).
Proof. intro H. unfold sub. apply N.leb_le in H. rewrite H. reflexivity. Qed.
Lemma mul_ok c a b : a * b < W -> mul c a b = Ok (a * b).
Proof. intro H. unfold mul. apply N.ltb_lt in H. cbv zeta. rewrite H. reflexivity. Qed.
Lemma shl_ok c a s : s < 64 -> shl c a s = Ok ((a * 2 ^ s) mod W).
Proof.
  intro H. unfold shl. apply N.ltb_lt in H. rewrite H.
  rewrite wrap_mod, N.shiftl_mul_pow2. reflexivity.
Qed.
Lemma shl_ok_small c a s : s < 64 -> a * 2 ^ s < W -> shl c a s = Ok (a * 2 ^ s).
Proof. intros H1 H2. rewrite shl_ok by assumption. rewrite N.mod_small by assumption. reflexivity. Qed.
Lemma shr_ok c a s : s < 64 -> shr c a s = Ok (a / 2 ^ s).
Proof.
  intro H. unfold shr. apply N.ltb_lt in H. rewrite H. rewrite N.shiftr_div_pow2. reflexivity.
Qed.
Lemma wmul_spec a b : wmul a b = (a * b) mod W.
Proof. unfold wmul. apply wrap_mod. Qed.
Lemma wshl_spec a s : s < 64 -> wshl a s = (a * 2 ^ s) mod W.
Proof.
  intro H. unfold wshl. rewrite wrap_mod.
  change 63 with (N.ones 6). rewrite N.land_ones.
  rewrite (N.mod_small s (2 ^ 6)) by (change (2 ^ 6) with 64; exact H).
  rewrite N.shiftl_mul_pow2. reflexivity.
Qed.
Lemma not64_spec a : a < W -> not64 a = W - 1 - a.
Proof.
  intro H. unfold not64. rewrite MASK64_eq.
  change (N.lxor a (N.ones 64)) with (N.lnot a 64).
  rewrite N.lnot_sub_low.
  - reflexivity.
  - destruct (N.eq_dec a 0) as [->|Hz]; [reflexivity|].
    apply N.log2_lt_pow2; [lia | exact H].
Qed.
Lemma not64_lt a : a < W -> not64 a < W.
Proof. intro H. rewrite not64_spec by assumption. unfold W in *. lia. Qed.
Lemma div_ok a b : b <> 0 -> div_ a b = Ok (a / b).
Proof. intro H. unfold div_. apply N.eqb_neq in H. rewrite H. reflexivity. Qed.
Lemma rem_ok a b : b <> 0 -> rem_ a b = Ok (a mod b).
Proof. intro H. unfold rem_. apply N.eqb_neq in H. rewrite H. reflexivity. Qed.

Lemma idx_ok {A} (d : A) l i : i < lenN l -> idx d l i = Ok (nthN l i d).
Proof. intro H. unfold idx. apply N.ltb_lt in H. rewrite H. reflexivity. Qed.
Lemma idx_oob {A} (d : A) l i : lenN l <= i -> idx d l i = Panic.
Proof. intro H. unfold idx. apply N.ltb_ge in H. rewrite H. reflexivity. Qed.
Lemma assert_ok b : b = true -> assert_ b = Ok tt.
Proof. intros ->. reflexivity. Qed.
Lemma dassert_ok c b : b = true -> dassert c b = Ok tt.
Proof. intros ->. unfold dassert. destruct (dbg c); reflexivity. Qed.

Lemma bind_Ok {A B} (a : A) (k : A -> res B) : bind (Ok a) k = k a.
Proof. reflexivity. Qed.
Lemma bind_assoc {A B C} (m : res A) (f : A -> res B) (g : B -> res C) :
  bind (bind m f) g = bind m (fun x => bind (f x) g).
Proof. destruct m; reflexivity. Qed.
Lemma bind_ret {A} (m : res A) : bind m Ok = m.
Proof. destruct m; reflexivity. Qed.
Lemma bind_inv {A B} (m : res A) (k : A -> res B) b :
  bind m k = Ok b -> exists a, m = Ok a /\ k a = Ok b.
Proof. destruct m as [a|]; cbn; [eauto | discriminate]. Qed.

Lemma lenN_app {A} (l m : list A) : lenN (l ++ m) = lenN l + lenN m.
Proof. unfold lenN. rewrite app_length. lia. Qed.
Lemma lenN_cons {A} (x : A) l : lenN (x :: l) = lenN l + 1.
Proof. unfold lenN. cbn [length]. lia. Qed.
Lemma lenN_nil {A} : lenN (@nil A) = 0.
Proof. reflexivity. Qed.
Lemma lenN_map {A B} (f : A -> B) l : lenN (map f l) = lenN l.
Proof. unfold lenN. rewrite map_length. reflexivity. Qed.
Lemma lenN_repeat {A} (x : A) n : lenN (repeat x n) = N.of_nat n.
Proof. unfold lenN. rewrite repeat_length. reflexivity. Qed.
Lemma lenN_firstn {A} (l : list A) n : lenN (firstn n l) = N.min (N.of_nat n) (lenN l).
Proof. unfold lenN. rewrite firstn_length. lia. Qed.
Lemma lenN_skipn {A} (l : list A) n : lenN (skipn n l) = lenN l - N.of_nat n.
Proof. unfold lenN. rewrite skipn_length. lia. Qed.

Lemma nthN_app_l {A} (l m : list A) i d : i < lenN l -> nthN (l ++ m) i d = nthN l i d.
Proof. unfold nthN, lenN. intro H. apply app_nth1. lia. Qed.
Lemma nthN_app_r {A} (l m : list A) i d : lenN l <= i -> nthN (l ++ m) i d = nthN m (i - lenN l) d.
Proof.
  unfold nthN, lenN. intro H. rewrite app_nth2 by lia. f_equal. lia.
Qed.

Lemma fold_res_app {S A} (f : S -> A -> res S) l1 l2 s :
  fold_res f (l1 ++ l2) s = bind (fold_res f l1 s) (fold_res f l2).
Proof.
  revert s. induction l1 as [|x l1 IH]; intro s; cbn [fold_res app bind]; [reflexivity|].
  destruct (f s x) as [s'|]; cbn [bind]; [apply IH | reflexivity].
Qed.
Lemma fold_res_ok_ind {S A} (f : S -> A -> res S) (P : list A -> S -> Prop) l s0 :
  P [] s0 ->
  (forall pre x s, P pre s -> exists s', f s x = Ok s' /\ P (pre ++ [x]) s') ->
  exists s, fold_res f l s0 = Ok s /\ P l s.
Proof.
  intros H0 Hstep.
  assert (G : forall l pre s, P pre s -> exists s', fold_res f l s = Ok s' /\ P (pre ++ l) s').
  { clear l. induction l as [|x l IH]; intros pre s HP.
    - exists s. rewrite app_nil_r. split; [reflexivity | exact HP].
    - destruct (Hstep pre x s HP) as [s' [E HP']]. cbn [fold_res]. rewrite E. cbn [bind].
      destruct (IH (pre ++ [x]) s' HP') as [s'' [E' HP'']]. exists s''. split; [exact E'|].
      rewrite <- app_assoc in HP''. exact HP''. }
  destruct (G l [] s0 H0) as [s [E HP]]. exists s. split; assumption.
Qed.

Lemma nseq_from_map start k : nseq_from start k = map (fun i => start + N.of_nat i) (seq 0 k).
Proof.
  revert start. induction k as [|k IH]; intro start; [reflexivity|].
  cbn [nseq_from seq map]. rewrite IH. f_equal; [lia|].
  rewrite <- seq_shift, map_map. apply map_ext. intro i. lia.
Qed.
Lemma nseq_unfold n : nseq n = map N.of_nat (seq 0 (N.to_nat n)).
Proof. unfold nseq. rewrite nseq_from_map. apply map_ext. intro i. lia. Qed.
