(* Proofs/UnaryIter.v — property C17, the unary iterator of BitVector, part 1:
   `unary_new` and `Iterator::next` (Model/Unary.v `unary_next`).
   The abstract state of the iterator is a cursor `cur`: the iterator still has to report
   exactly the set positions >= cur, i.e. `pos_from true (bits_of bv) cur`.
   Also the word-level and list-level lemmas shared with Proofs/UnarySkip.v. *)
From Sucds Require Import Base.Res Spec.WordSpec Spec.BitSpec Spec.SeqSpec Model.BitVector Model.Unary
  Proofs.ResLemmas Proofs.BVAbs Proofs.WordLemmas Proofs.BVReads Proofs.BVReads2.
From Coq Require Import ZArith ZifyN ZifyBool ZifyNat Lia.
Ltac Zify.zify_post_hook ::= Z.div_mod_to_equations.
Open Scope N_scope.

(* the v-positions at or after the cursor, in increasing order *)
Definition pos_from (v : bool) (b : list bool) (cur : N) : list N :=
  filter (fun p => cur <=? p) (positions v b).

(* ---------- word-level facts ---------- *)

Lemma lt_W_bits x : (forall j, 64 <= j -> N.testbit x j = false) -> x < W.
Proof.
  intro H. destruct (N.eq_dec x 0) as [->|Hz]; [reflexivity|].
  rewrite W_eq. apply N.log2_lt_pow2; [lia|].
  destruct (N.lt_ge_cases (N.log2 x) 64) as [Hlt|Hge]; [exact Hlt|].
  specialize (H _ Hge). rewrite N.bit_log2 in H by exact Hz. discriminate.
Qed.

Lemma land_lt_W a b : a < W -> N.land a b < W.
Proof.
  intro H. apply lt_W_bits. intros j Hj. rewrite N.land_spec, (testbit_W_high a j H Hj). reflexivity.
Qed.

(* pos & !(WORD_LEN - 1) *)
Lemma land_not63 p : p < W -> N.land p (not64 (WORD_LEN - 1)) = 64 * (p / 64).
Proof.
  intro H. change (WORD_LEN - 1) with 63.
  replace (64 * (p / 64)) with (p / 2 ^ 6 * 2 ^ 6) by (change (2 ^ 6) with 64; lia).
  apply N.bits_inj. intro i. rewrite N.land_spec, testbit_mul_pow2, testbit_div_pow2.
  destruct (N.lt_ge_cases i 64) as [Hi|Hi].
  - rewrite testbit_not64 by exact Hi. change 63 with (2 ^ 6 - 1). rewrite testbit_pow2_pred.
    destruct (N.leb_spec 6 i) as [H6|H6]; destruct (N.ltb_spec i 6) as [H6'|H6']; try lia; cbn [negb andb].
    replace (i - 6 + 6) with i by lia. apply andb_true_r.
  - rewrite (testbit_W_high p i H Hi). cbn [andb].
    destruct (N.leb_spec 6 i) as [H6|H6]; [|lia]. cbn [andb].
    replace (i - 6 + 6) with i by lia. symmetry. apply (testbit_W_high p i H Hi).
Qed.

(* usize::MAX.wrapping_shl(s) *)
Lemma testbit_wshl_mask s j : s < 64 -> N.testbit (wshl MASK64 s) j = (j <? 64) && (s <=? j).
Proof.
  intro H. rewrite wshl_spec by exact H. rewrite testbit_shl64, testbit_MASK64.
  destruct (N.ltb_spec j 64) as [Hj|Hj]; [|reflexivity]. cbn [andb].
  destruct (N.leb_spec s j) as [Hs|Hs]; [|reflexivity]. cbn [andb].
  apply N.ltb_lt. lia.
Qed.

Lemma testbit_land_wshl_mask w s j : s < 64 -> j < 64 ->
  N.testbit (N.land w (wshl MASK64 s)) j = (s <=? j) && N.testbit w j.
Proof.
  intros Hs Hj. rewrite N.land_spec, testbit_wshl_mask by exact Hs.
  destruct (N.ltb_spec j 64) as [_|Hx]; [|lia]. cbn [andb]. apply andb_comm.
Qed.

(* buf & (buf - 1) clears the lowest set bit *)
Lemma clear_lsb_pos p : forall j,
  N.testbit (N.land (N.pos p) (N.pos p - 1)) j = N.testbit (N.pos p) j && negb (j =? ctzP p).
Proof.
  induction p as [p IH|p IH|]; intro j.
  - (* 2p+1 *) cbn [ctzP].
    replace (N.pos p~1 - 1) with (2 * N.pos p) by lia.
    change (N.pos p~1) with (2 * N.pos p + 1).
    rewrite N.land_spec.
    destruct (N.eqb_spec j 0) as [->|Hj].
    + rewrite N.testbit_even_0. cbn [negb]. rewrite !andb_false_r. reflexivity.
    + replace j with (N.succ (N.pred j)) by lia.
      rewrite N.testbit_odd_succ, N.testbit_even_succ by lia. cbn [negb].
      rewrite andb_true_r. apply andb_diag.
  - (* 2p *) cbn [ctzP].
    replace (N.pos p~0 - 1) with (2 * (N.pos p - 1) + 1) by lia.
    change (N.pos p~0) with (2 * N.pos p).
    rewrite N.land_spec.
    destruct (N.eqb_spec j 0) as [->|Hj].
    + rewrite N.testbit_even_0. reflexivity.
    + replace j with (N.succ (N.pred j)) at 1 2 3 by lia.
      rewrite N.testbit_odd_succ, N.testbit_even_succ by lia.
      rewrite <- N.land_spec, IH.
      f_equal. f_equal.
      destruct (N.eqb_spec (N.pred j) (ctzP p)) as [E|E];
        destruct (N.eqb_spec j (N.succ (ctzP p))) as [E'|E']; try reflexivity; lia.
  - cbn [ctzP]. change (N.land 1 (1 - 1)) with 0. rewrite N.bits_0.
    destruct (N.eqb_spec j 0) as [->|Hj]; [reflexivity|].
    cbn [negb]. rewrite andb_true_r. symmetry.
    replace j with (N.succ (N.pred j)) by lia. change 1 with (2 * 0 + 1).
    rewrite N.testbit_odd_succ by lia. apply N.bits_0.
Qed.

Lemma clear_lsb x r j : lsb_spec x = Some r ->
  N.testbit (N.land x (x - 1)) j = (r <? j) && N.testbit x j.
Proof.
  intro E. pose proof (lsb_spec_Some x r E) as [E1 E2].
  unfold lsb_spec in E. destruct (N.eqb_spec x 0) as [|Hz]; [discriminate|].
  injection E as E. destruct x as [|p]; [lia|]. cbn [ctz64] in E. subst r.
  rewrite clear_lsb_pos.
  destruct (N.ltb_spec (ctzP p) j) as [H|H]; destruct (N.eqb_spec j (ctzP p)) as [H'|H'];
    cbn [negb andb].
  - exfalso. lia.
  - apply andb_true_r.
  - apply andb_false_r.
  - rewrite andb_true_r. apply E2. lia.
Qed.

(* ---------- list-level facts about pos_from ---------- *)

Lemma filter_all_true {A} (f : A -> bool) l : (forall x, In x l -> f x = true) -> filter f l = l.
Proof.
  induction l as [|x l IH]; intro H; [reflexivity|]. cbn [filter].
  rewrite (H x (or_introl eq_refl)). f_equal. apply IH. intros y Hy. apply H. right. exact Hy.
Qed.
Lemma filter_all_false {A} (f : A -> bool) l : (forall x, In x l -> f x = false) -> filter f l = [].
Proof.
  induction l as [|x l IH]; intro H; [reflexivity|]. cbn [filter].
  rewrite (H x (or_introl eq_refl)). apply IH. intros y Hy. apply H. right. exact Hy.
Qed.

Lemma filter_ge_all v l o cur : cur <= o ->
  filter (fun p => cur <=? p) (positions_from v l o) = positions_from v l o.
Proof.
  intro H. apply filter_all_true. intros x Hx. apply positions_from_range in Hx. apply N.leb_le. lia.
Qed.
Lemma filter_lt_nil v l o cur : o + lenN l <= cur ->
  filter (fun p => cur <=? p) (positions_from v l o) = [].
Proof.
  intro H. apply filter_all_false. intros x Hx. apply positions_from_range in Hx. apply N.leb_gt. lia.
Qed.

Lemma pos_from_skipn v b cur : cur <= lenN b ->
  pos_from v b cur = positions_from v (skipn (N.to_nat cur) b) cur.
Proof.
  intro H. unfold pos_from, positions.
  rewrite <- (firstn_skipn (N.to_nat cur) b) at 1.
  rewrite positions_from_app, filter_app.
  assert (Hl : lenN (firstn (N.to_nat cur) b) = cur) by (rewrite lenN_firstn; lia).
  rewrite Hl, N.add_0_l.
  rewrite filter_lt_nil by lia. rewrite filter_ge_all by lia. reflexivity.
Qed.

Lemma pos_from_cons v b cur q : cur <= q -> nth_error b (N.to_nat q) = Some v ->
  (forall j, cur <= j < q -> nth_error b (N.to_nat j) <> Some v) ->
  pos_from v b cur = q :: pos_from v b (q + 1).
Proof.
  intros Hq Hn Hlow.
  destruct (nth_error_split b _ Hn) as [l1 [l2 [El Hl1]]]. subst b.
  unfold pos_from, positions. rewrite positions_from_app. cbn [positions_from]. rewrite eqb_reflx.
  replace (0 + lenN l1) with q by (unfold lenN; lia).
  rewrite !filter_app. cbn [filter].
  destruct (N.leb_spec cur q) as [_|Hx]; [|lia].
  destruct (N.leb_spec (q + 1) q) as [Hx|_]; [lia|].
  rewrite (filter_positions_nil v _ l1).
  - rewrite (filter_lt_nil v l1 0 (q + 1)) by (unfold lenN; lia).
    rewrite !filter_ge_all by lia. reflexivity.
  - intros j Hj. rewrite N.add_0_l. apply N.leb_gt.
    pose proof (nth_error_lt _ _ _ Hj) as Hjl.
    destruct (N.lt_ge_cases (N.of_nat j) cur) as [Hlt|Hge]; [exact Hlt|]. exfalso.
    apply (Hlow (N.of_nat j)); [lia|]. rewrite Nat2N.id, nth_error_app1 by lia. exact Hj.
Qed.

Lemma pos_from_nil v b cur :
  (forall j, cur <= j < lenN b -> nth_error b (N.to_nat j) <> Some v) -> pos_from v b cur = [].
Proof.
  intro H. unfold pos_from, positions. apply filter_positions_nil.
  intros j Hj. rewrite N.add_0_l. apply N.leb_gt.
  pose proof (nth_error_lt _ _ _ Hj) as Hjl.
  destruct (N.lt_ge_cases (N.of_nat j) cur) as [Hlt|Hge]; [exact Hlt|]. exfalso.
  apply (H (N.of_nat j)); [unfold lenN; lia|]. rewrite Nat2N.id. exact Hj.
Qed.

Lemma pos_from_ge v b cur q : In q (pos_from v b cur) -> cur <= q < lenN b.
Proof.
  unfold pos_from, positions. intro H. apply filter_In in H. destruct H as [H1 H2].
  apply positions_from_range in H1. apply N.leb_le in H2. lia.
Qed.

(* ---------- unary_new ---------- *)

Lemma words_after_eq bv pos :
  words_after bv pos = skipn (S (N.to_nat (pos / 64))) (bv_words bv).
Proof.
  unfold words_after, WORD_LEN. destruct (N.ltb_spec (pos / 64) (lenN (bv_words bv))) as [H|H];
    [reflexivity|].
  symmetry. apply skipn_all2. unfold lenN in H. lia.
Qed.

Lemma unary_new_buf bv pos :
  u_buf (unary_new bv pos)
  = N.land (nthN (bv_words bv) (pos / 64) 0) (wshl MASK64 (pos mod 64)).
Proof.
  unfold unary_new, WORD_LEN. cbn [u_buf].
  destruct (N.ltb_spec (pos / 64) (lenN (bv_words bv))) as [H|H]; [reflexivity|].
  unfold nthN. rewrite nth_overflow by (unfold lenN in H; lia). reflexivity.
Qed.
Lemma unary_new_pos bv pos : u_pos (unary_new bv pos) = pos.
Proof. reflexivity. Qed.

Lemma unary_new_buf_lt bv pos : wf bv -> u_buf (unary_new bv pos) < W.
Proof. intro H. rewrite unary_new_buf. apply land_lt_W, wf_word_lt, H. Qed.

Lemma unary_new_buf_bit bv pos j : j < 64 ->
  N.testbit (u_buf (unary_new bv pos)) j
  = (pos mod 64 <=? j) && N.testbit (nthN (bv_words bv) (pos / 64) 0) j.
Proof.
  intro Hj. rewrite unary_new_buf. apply testbit_land_wshl_mask; [lia | exact Hj].
Qed.

(* two iterator states with the same position and the same 64 buffer bits are equal *)
Lemma uiter_ext p b1 b2 : b1 < W -> b2 < W ->
  (forall j, j < 64 -> N.testbit b1 j = N.testbit b2 j) ->
  {| u_pos := p; u_buf := b1 |} = {| u_pos := p; u_buf := b2 |}.
Proof.
  intros H1 H2 H. f_equal. apply N.bits_inj. intro j.
  destruct (N.lt_ge_cases j 64) as [Hj|Hj]; [apply H, Hj|].
  rewrite (testbit_W_high b1 j H1 Hj), (testbit_W_high b2 j H2 Hj). reflexivity.
Qed.

(* ---------- Iterator::next ---------- *)

(* `it` still has to report the set positions >= cur *)
Definition nrep (bv : bitvec) (it : uiter) (cur : N) : Prop :=
  let blk := u_pos it / 64 in
  u_buf it < W /\ 64 * blk <= cur <= 64 * blk + 64 /\ cur <= bv_len bv /\
  forall j, j < 64 ->
    N.testbit (u_buf it) j = (cur <=? 64 * blk + j) && wbit (bv_words bv) (64 * blk + j).
(* exhausted: empty buffer and a position past the last word *)
Definition ndone (bv : bitvec) (it : uiter) : Prop :=
  u_buf it = 0 /\ lenN (bv_words bv) <= u_pos it / 64.

Lemma unary_new_nrep bv p : wf bv -> p <= bv_len bv -> nrep bv (unary_new bv p) p.
Proof.
  intros Hwf Hp. unfold nrep. cbv zeta. rewrite unary_new_pos.
  split; [apply unary_new_buf_lt, Hwf|]. split; [lia|]. split; [exact Hp|].
  intros j Hj. rewrite unary_new_buf_bit by exact Hj. rewrite wbit_split by exact Hj.
  f_equal. destruct (N.leb_spec (p mod 64) j) as [H|H]; destruct (N.leb_spec p (64 * (p / 64) + j)) as [H'|H'];
    try reflexivity; lia.
Qed.

Section NextScan.
Variables (c : cfg) (ws : list N) (cur : N).
Hypothesis Hall : Forall (fun w => w < W) ws.

Definition NR (after : list N) (pos p : N) (r : option N) : Prop :=
  match r with
  | Some bf =>
      bf <> 0 /\ bf < W /\ p <= pos + 64 * lenN after /\ cur <= 64 * (p / 64 + 1) /\
      (forall j, j < 64 -> N.testbit bf j = (cur <=? 64 * (p / 64) + j) && wbit ws (64 * (p / 64) + j)) /\
      (forall j, cur <= j < 64 * (p / 64) -> wbit ws j = false)
  | None =>
      p = pos + 64 * (lenN after + 1) /\ lenN ws <= p / 64 /\
      (forall j, cur <= j -> wbit ws j = false)
  end.

Lemma next_scan_spec : forall after buf pos,
  after = skipn (S (N.to_nat (pos / 64))) ws -> buf < W -> pos + 64 * (lenN after + 1) < W ->
  cur <= 64 * (pos / 64 + 1) ->
  (forall j, j < 64 -> N.testbit buf j = (cur <=? 64 * (pos / 64) + j) && wbit ws (64 * (pos / 64) + j)) ->
  (forall j, cur <= j < 64 * (pos / 64) -> wbit ws j = false) ->
  exists p r, next_scan c after buf pos = Ok (p, r) /\ NR after pos p r.
Proof.
  induction after as [|w r IH]; intros buf pos Haft Hbuf Hb Hcur Hbits Hlow.
  - cbn [next_scan]. rewrite lenN_nil in Hb. destruct (N.eqb_spec buf 0) as [Hz|Hz].
    + unfold WORD_LEN. rewrite add_ok by lia. cbn [bind].
      exists (pos + 64), None. split; [reflexivity|]. cbn [NR]. change (lenN (@nil N)) with 0.
      assert (Hn : lenN ws <= pos / 64 + 1).
      { pose proof (f_equal (@length N) Haft) as Hl. rewrite skipn_length in Hl. cbn [length] in Hl.
        unfold lenN. lia. }
      split; [lia|]. split; [lia|].
      intros j Hj. destruct (N.lt_ge_cases j (64 * (pos / 64))) as [H1|H1]; [apply Hlow; lia|].
      destruct (N.lt_ge_cases j (64 * (pos / 64 + 1))) as [H2|H2].
      * specialize (Hbits (j - 64 * (pos / 64))). rewrite Hz, N.bits_0 in Hbits.
        replace (64 * (pos / 64) + (j - 64 * (pos / 64))) with j in Hbits by lia.
        destruct (N.leb_spec cur j) as [_|Hx]; [|lia]. symmetry. apply Hbits. lia.
      * apply wbit_oob. lia.
    + exists pos, (Some buf). split; [reflexivity|]. cbn [NR]. change (lenN (@nil N)) with 0.
      repeat split; try assumption; lia.
  - cbn [next_scan]. rewrite lenN_cons in Hb. destruct (N.eqb_spec buf 0) as [Hz|Hz].
    + unfold WORD_LEN. rewrite add_ok by lia. cbn [bind].
      symmetry in Haft. apply (skipn_cons_inv 0) in Haft. destruct Haft as [Hw Hr].
      assert (Hblk : (pos + 64) / 64 = pos / 64 + 1) by lia.
      assert (Hwn : w = nthN ws (pos / 64 + 1) 0).
      { rewrite Hw. unfold nthN. f_equal. lia. }
      destruct (IH w (pos + 64)) as [p [res [E R]]].
      * rewrite Hr, Hblk. f_equal. lia.
      * rewrite Hwn. apply Forall_nthN; [exact Hall | apply W_pos].
      * lia.
      * lia.
      * intros j Hj. rewrite Hblk, wbit_split by exact Hj. rewrite <- Hwn.
        destruct (N.leb_spec cur (64 * (pos / 64 + 1) + j)) as [_|Hx]; [reflexivity | lia].
      * intros j Hj. rewrite Hblk in Hj.
        destruct (N.lt_ge_cases j (64 * (pos / 64))) as [H1|H1]; [apply Hlow; lia|].
        specialize (Hbits (j - 64 * (pos / 64))). rewrite Hz, N.bits_0 in Hbits.
        replace (64 * (pos / 64) + (j - 64 * (pos / 64))) with j in Hbits by lia.
        destruct (N.leb_spec cur j) as [_|Hx]; [|lia]. symmetry. apply Hbits. lia.
      * exists p, res. split; [exact E|].
        destruct res as [bf|]; cbn [NR] in *; rewrite lenN_cons.
        -- destruct R as [R1 [R2 [R3 R4]]]. repeat split; try assumption; try lia; apply R4.
        -- destruct R as [R1 R2]. split; [lia | exact R2].
    + exists pos, (Some buf). split; [reflexivity|]. cbn [NR].
      repeat split; try assumption; lia.
Qed.
End NextScan.

(* one call of next() *)
Theorem unary_next_spec c bv it cur : wf bv -> cap_ok bv -> nrep bv it cur ->
  (exists q it', unary_next c bv it = Ok (it', Some q) /\
      pos_from true (bits_of bv) cur = q :: pos_from true (bits_of bv) (q + 1) /\
      u_pos it' = q /\ nrep bv it' (q + 1)) \/
  (exists it', unary_next c bv it = Ok (it', None) /\
      pos_from true (bits_of bv) cur = [] /\ ndone bv it' /\ u_pos it' < 2 ^ 58).
Proof.
  intros Hwf Hcap [Hbuf [Hblk [Hcl Hbits]]].
  pose proof (wf_nwords bv Hwf) as Hn. pose proof (cap_W bv Hcap) as Hc.
  pose proof (bits_of_length bv Hwf) as Hbl.
  assert (Hall : Forall (fun w => w < W) (bv_words bv)) by (destruct Hwf as [_ [H _]]; exact H).
  set (blk := u_pos it / 64) in *.
  assert (Hla : lenN (words_after bv (u_pos it)) <= lenN (bv_words bv)).
  { rewrite words_after_eq, lenN_skipn. lia. }
  destruct (next_scan_spec c (bv_words bv) cur Hall (words_after bv (u_pos it)) (u_buf it) (u_pos it))
    as [p [r [E R]]].
  - apply words_after_eq.
  - exact Hbuf.
  - unfold W. lia.
  - fold blk. lia.
  - exact Hbits.
  - fold blk. intros j Hj. lia.
  - unfold unary_next. rewrite E. cbn [bind]. destruct r as [bf|]; cbn [NR] in R.
    + left. destruct R as [Hz [Hbf [Hp [Hcp [Hb Hlow]]]]].
      destruct (lsb_spec bf) as [piw|] eqn:El; [|apply lsb_spec_None in El; contradiction].
      pose proof (lsb_spec_Some _ _ El) as [L1 L2].
      pose proof (testbit_true_lt64 _ _ Hbf L1) as Hpiw.
      cbn [unwrap bind]. rewrite sub_ok by lia. cbn [bind].
      rewrite land_not63 by (unfold W; lia).
      rewrite add_ok by (unfold W; lia). cbn [bind].
      set (q := 64 * (p / 64) + piw).
      pose proof (Hb piw Hpiw) as Hq. rewrite L1 in Hq. symmetry in Hq.
      apply andb_true_iff in Hq. destruct Hq as [Hq1 Hq2]. apply N.leb_le in Hq1. fold q in Hq1, Hq2.
      assert (Hql : q < bv_len bv).
      { destruct (N.lt_ge_cases q (bv_len bv)) as [H|H]; [exact H|].
        rewrite (wf_wbit_high bv q Hwf H) in Hq2. discriminate. }
      exists q, {| u_pos := q; u_buf := N.land bf (bf - 1) |}.
      split; [reflexivity|]. split; [|split; [reflexivity|]].
      * apply pos_from_cons.
        -- exact Hq1.
        -- rewrite bits_of_nth_error by assumption. rewrite Hq2. reflexivity.
        -- intros j Hj. rewrite bits_of_nth_error by (try assumption; lia).
           intro Hx. injection Hx as Hx.
           destruct (N.lt_ge_cases j (64 * (p / 64))) as [H1|H1].
           ++ rewrite Hlow in Hx by lia. discriminate.
           ++ assert (Hjj : j - 64 * (p / 64) < 64) by (unfold q in Hj; lia).
              specialize (Hb _ Hjj).
              replace (64 * (p / 64) + (j - 64 * (p / 64))) with j in Hb by lia.
              rewrite L2 in Hb by (unfold q in Hj; lia). rewrite Hx in Hb.
              destruct (N.leb_spec cur j) as [_|Hy]; [cbn [andb] in Hb; discriminate | lia].
      * unfold nrep. cbn [u_pos u_buf]. cbv zeta.
        assert (Hqb : q / 64 = p / 64) by (unfold q; lia). rewrite Hqb.
        split; [apply land_lt_W, Hbf|]. split; [unfold q; lia|]. split; [lia|].
        intros j Hj. rewrite (clear_lsb bf piw j El), Hb by exact Hj.
        destruct (N.ltb_spec piw j) as [H1|H1]; destruct (N.leb_spec (q + 1) (64 * (p / 64) + j)) as [H2|H2];
          cbn [andb].
        -- destruct (N.leb_spec cur (64 * (p / 64) + j)) as [_|H3]; [reflexivity | unfold q in *; lia].
        -- exfalso. unfold q in H2. lia.
        -- exfalso. unfold q in H2. lia.
        -- reflexivity.
    + right. destruct R as [Hp [Hnw Hnone]].
      exists {| u_pos := p; u_buf := u_buf it |}. split; [reflexivity|]. split; [|split].
      * apply pos_from_nil. intros j Hj. rewrite Hbl in Hj.
        rewrite bits_of_nth_error by (try assumption; lia). rewrite Hnone by lia. discriminate.
      * unfold ndone. cbn [u_pos u_buf]. split; [|exact Hnw].
        apply N.bits_inj. intro j. rewrite N.bits_0.
        destruct (N.lt_ge_cases j 64) as [Hj|Hj]; [|apply (testbit_W_high _ _ Hbuf Hj)].
        rewrite Hbits by exact Hj.
        destruct (N.leb_spec cur (64 * blk + j)) as [H1|H1]; [|reflexivity].
        rewrite Hnone by lia. reflexivity.
      * cbn [u_pos]. change (2 ^ 58) with 288230376151711744. lia.
Qed.

(* once exhausted, always exhausted (while the position stays representable) *)
Theorem unary_next_done c bv it : ndone bv it -> u_pos it + 64 < W ->
  unary_next c bv it = Ok ({| u_pos := u_pos it + 64; u_buf := 0 |}, None) /\
  ndone bv {| u_pos := u_pos it + 64; u_buf := 0 |}.
Proof.
  intros [Hz Hn] Hb. split.
  - unfold unary_next. rewrite words_after_eq, skipn_all2 by (unfold lenN in Hn; lia).
    rewrite Hz. cbn [next_scan]. change (0 =? 0) with true. cbv iota.
    unfold WORD_LEN. rewrite add_ok by exact Hb. reflexivity.
  - unfold ndone. cbn [u_pos u_buf]. split; [reflexivity | lia].
Qed.

(* n calls of next(), collecting the results *)
Fixpoint next_run (c : cfg) (bv : bitvec) (it : uiter) (n : nat) : res (uiter * list (option N)) :=
  match n with
  | O => Ok (it, [])
  | S m =>
      r <- unary_next c bv it ;;
      r' <- next_run c bv (fst r) m ;;
      Ok (fst r', snd r :: snd r')
  end.

Lemma next_run_done c bv : forall n it, ndone bv it -> u_pos it + 64 * N.of_nat n < W ->
  exists it', next_run c bv it n = Ok (it', repeat None n) /\ ndone bv it' /\
              u_pos it' = u_pos it + 64 * N.of_nat n.
Proof.
  induction n as [|n IH]; intros it Hd Hb.
  - exists it. cbn [next_run repeat]. split; [reflexivity|]. split; [exact Hd | lia].
  - destruct (unary_next_done c bv it Hd) as [E Hd']; [lia|].
    cbn [next_run]. rewrite E. cbn [bind fst snd].
    destruct (IH _ Hd') as [it' [E' [Hd'' Hp]]]; [cbn [u_pos]; lia|].
    exists it'. rewrite E'. cbn [bind fst snd repeat]. split; [reflexivity|]. split; [exact Hd''|].
    rewrite Hp. cbn [u_pos]. lia.
Qed.

Lemma firstn_app_repeat {A} (x : A) n : forall l m, (n <= m)%nat ->
  firstn n (l ++ repeat x m) = firstn n (l ++ repeat x n).
Proof.
  induction n as [|n IH]; intros l m H; [reflexivity|].
  destruct l as [|y l].
  - destruct m as [|m]; [lia|]. cbn [app repeat firstn]. f_equal.
    apply (IH [] m). lia.
  - cbn [app firstn]. f_equal. rewrite (IH l m) by lia. symmetry. apply (IH l (S n)). lia.
Qed.

Lemma next_run_nrep c bv : wf bv -> cap_ok bv -> forall n it cur, nrep bv it cur ->
  N.of_nat n < 2 ^ 50 ->
  exists it', next_run c bv it n
    = Ok (it', firstn n (map Some (pos_from true (bits_of bv) cur) ++ repeat None n)).
Proof.
  intros Hwf Hcap. induction n as [|n IH]; intros it cur Hr Hn.
  - exists it. reflexivity.
  - cbn [next_run].
    destruct (unary_next_spec c bv it cur Hwf Hcap Hr) as [[q [it' [E [El [Hp Hr']]]]] | [it' [E [El [Hd Hp]]]]].
    + rewrite E, El. cbn [bind fst snd].
      destruct (IH it' (q + 1) Hr') as [it'' E']; [lia|].
      exists it''. rewrite E'. cbn [bind fst snd map app firstn]. do 3 f_equal.
      symmetry. apply firstn_app_repeat. lia.
    + rewrite E, El. cbn [bind fst snd map app].
      destruct (next_run_done c bv n it' Hd) as [it'' [E' _]].
      { change (2 ^ 58) with 288230376151711744 in Hp.
        change (2 ^ 50) with 1125899906842624 in Hn. unfold W. lia. }
      exists it''. rewrite E'. cbn [bind fst snd repeat firstn]. do 3 f_equal.
      symmetry. apply firstn_all2. rewrite repeat_length. lia.
Qed.

(* the first n results of repeated next() from unary_iter(p) *)
Theorem unary_next_run c bv p n : wf bv -> cap_ok bv -> p <= bv_len bv -> N.of_nat n < 2 ^ 50 ->
  exists it', next_run c bv (unary_new bv p) n
    = Ok (it', firstn n (map Some (filter (fun q => p <=? q) (positions true (bits_of bv)))
                         ++ repeat None n)).
Proof.
  intros Hwf Hcap Hp Hn. apply (next_run_nrep c bv Hwf Hcap n _ p); [|exact Hn].
  apply unary_new_nrep; assumption.
Qed.

(* first call after unary_new, stated directly *)
Corollary unary_new_next c bv p : wf bv -> cap_ok bv -> p <= bv_len bv ->
  exists it', unary_next c bv (unary_new bv p)
    = Ok (it', hd_error (filter (fun q => p <=? q) (positions true (bits_of bv)))).
Proof.
  intros Hwf Hcap Hp.
  destruct (unary_next_spec c bv _ p Hwf Hcap (unary_new_nrep bv p Hwf Hp))
    as [[q [it' [E [El _]]]] | [it' [E [El _]]]]; exists it'; rewrite E; f_equal; f_equal;
    fold (pos_from true (bits_of bv) p); rewrite El; reflexivity.
Qed.
