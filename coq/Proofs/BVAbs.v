(* Proofs/BVAbs.v — the abstraction of a BitVector model value to the list of booleans it
   denotes, and its well-formedness invariant (DESIGN.md Appendix A, BitVector). *)
From Sucds Require Import Base.Res Spec.WordSpec Spec.BitSpec Model.BitVector Proofs.ResLemmas.
From Coq Require Import ZArith ZifyN ZifyBool ZifyNat Lia.
Ltac Zify.zify_post_hook ::= Z.div_mod_to_equations.
Open Scope N_scope.

(* all bits of the word list, least significant bit of word 0 first *)
Definition flat_bits (ws : list N) : list bool := flat_map word_bits ws.
(* the denoted bit sequence *)
Definition bits_of (bv : bitvec) : list bool := firstn (N.to_nat (bv_len bv)) (flat_bits (bv_words bv)).

(* bit i of the word list *)
Definition wbit (ws : list N) (i : N) : bool := N.testbit (nthN ws (i / 64) 0) (i mod 64).

Definition wf (bv : bitvec) : Prop :=
  lenN (bv_words bv) = (bv_len bv + 63) / 64 /\
  Forall (fun w => w < W) (bv_words bv) /\
  (forall i, bv_len bv <= i -> wbit (bv_words bv) i = false).

(* capacity hypothesis of DESIGN.md section 3.3 *)
Definition cap_ok (bv : bitvec) : Prop := bv_len bv < 2 ^ 56.

Lemma bits_n_length n w : length (bits_n n w) = n.
Proof. revert w. induction n as [|n IH]; intro w; cbn [bits_n length]; [reflexivity | rewrite IH; reflexivity]. Qed.
Lemma word_bits_length w : length (word_bits w) = 64%nat.
Proof. apply bits_n_length. Qed.

Lemma bits_n_nth n w i : (i < n)%nat -> nth i (bits_n n w) false = N.testbit w (N.of_nat i).
Proof.
  revert w i. induction n as [|n IH]; intros w i Hi; [lia|].
  cbn [bits_n]. destruct i as [|i].
  - cbn [nth]. symmetry. apply N.bit0_odd.
  - cbn [nth]. rewrite IH by lia. rewrite N.div2_spec, N.shiftr_spec' .
    f_equal. lia.
Qed.
Lemma word_bits_nth w i : (i < 64)%nat -> nth i (word_bits w) false = N.testbit w (N.of_nat i).
Proof. apply bits_n_nth. Qed.

Lemma flat_bits_length ws : length (flat_bits ws) = (64 * length ws)%nat.
Proof.
  induction ws as [|w ws IH]; [reflexivity|].
  unfold flat_bits in *. cbn [flat_map]. rewrite app_length, word_bits_length, IH. cbn [length]. lia.
Qed.

Lemma flat_bits_nth ws i : i < 64 * lenN ws -> nth (N.to_nat i) (flat_bits ws) false = wbit ws i.
Proof.
  revert i. induction ws as [|w ws IH]; intros i Hi.
  - unfold lenN in Hi. cbn [length] in Hi. lia.
  - unfold flat_bits in *. cbn [flat_map]. unfold wbit, nthN.
    destruct (N.ltb_spec i 64) as [Hlt|Hge].
    + rewrite app_nth1 by (rewrite word_bits_length; lia).
      rewrite word_bits_nth by lia.
      replace (i / 64) with 0 by (symmetry; apply N.div_small; exact Hlt).
      rewrite N.mod_small by exact Hlt. cbn [N.to_nat nth]. f_equal. lia.
    + rewrite app_nth2 by (rewrite word_bits_length; lia).
      rewrite word_bits_length.
      replace (N.to_nat i - 64)%nat with (N.to_nat (i - 64)) by lia.
      rewrite IH by (rewrite lenN_cons in Hi; lia).
      unfold wbit, nthN.
      replace (N.to_nat (i / 64)) with (S (N.to_nat ((i - 64) / 64))) by lia.
      cbn [nth]. f_equal. lia.
Qed.

Lemma bits_of_length bv : wf bv -> lenN (bits_of bv) = bv_len bv.
Proof.
  intros [Hl _]. unfold bits_of. rewrite lenN_firstn. unfold lenN in *. rewrite flat_bits_length. lia.
Qed.

Lemma bits_of_nth bv i : wf bv -> i < bv_len bv -> nth (N.to_nat i) (bits_of bv) false = wbit (bv_words bv) i.
Proof.
  intros [Hl _] Hi. unfold bits_of.
  assert (Hn : forall A (l : list A) n k d, (k < n)%nat -> nth k (firstn n l) d = nth k l d).
  { intros A l. induction l as [|x l IH]; intros n k d Hk.
    - rewrite firstn_nil. reflexivity.
    - destruct n as [|n]; [lia|]. cbn [firstn]. destruct k as [|k]; [reflexivity|]. cbn [nth]. apply IH. lia. }
  rewrite Hn by lia.
  apply flat_bits_nth. unfold lenN in *. lia.
Qed.
