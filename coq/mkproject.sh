#!/bin/sh
# regenerate _CoqProject and Makefile from the files present
cd "$(dirname "$0")"
{
  echo "-Q . Sucds"
  echo "-arg -w -arg -notation-overridden,-deprecated-hint-without-locality,-deprecated-syntactic-definition"
  find Base Spec gen Model Proofs Props Extract -name '*.v' 2>/dev/null | sort
} > _CoqProject
coq_makefile -f _CoqProject -o Makefile >/dev/null
