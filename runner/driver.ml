(* runner/driver.ml — reads a transcript written by the Rust harness (same inputs, the
   implementation's answers), runs the extracted `Model.step` (model + spec) on every line and
   reports where implementation, model and spec differ.  One result per line on stdout:
     MISMATCH <case> <lineno> <what> impl=<rv> model=<rv> spec=<rv|pred|any> :: <line>
     STATS cases=<n> ops=<n> mismatches=<n> ...
   With --dump, also prints "R <case> <lineno> <model rv>" for the in-Coq extraction cross-check. *)
open Model

let rec pos_of_bits (bits : bool list) : positive =
  (* bits: least significant first, last must be true *)
  match bits with
  | [] -> XH
  | [ _ ] -> XH
  | b :: r -> if b then XI (pos_of_bits r) else XO (pos_of_bits r)

let hexval c =
  match c with
  | '0' .. '9' -> Char.code c - 48
  | 'a' .. 'f' -> Char.code c - 87
  | 'A' .. 'F' -> Char.code c - 55
  | _ -> failwith ("bad hex digit " ^ String.make 1 c)

let n_of_hex (s : string) : n =
  (* build the positive from the most significant digit down *)
  let len = String.length s in
  let acc = ref N0 in
  for i = 0 to len - 1 do
    let d = hexval s.[i] in
    for b = 3 downto 0 do
      let bit = (d lsr b) land 1 = 1 in
      acc :=
        (match !acc with
         | N0 -> if bit then Npos XH else N0
         | Npos p -> Npos (if bit then XI p else XO p))
    done
  done;
  !acc

let hex_of_n (x : n) : string =
  match x with
  | N0 -> "0"
  | Npos p ->
    let rec bits p acc = match p with
      | XH -> true :: acc
      | XO q -> bits q (false :: acc)
      | XI q -> bits q (true :: acc) in
    (* collect lsb-first list *)
    let rec lsb p = match p with
      | XH -> [ true ]
      | XO q -> false :: lsb q
      | XI q -> true :: lsb q in
    ignore bits;
    let l = Array.of_list (lsb p) in
    let nb = Array.length l in
    let nd = (nb + 3) / 4 in
    let buf = Bytes.create nd in
    for d = 0 to nd - 1 do
      let v = ref 0 in
      for b = 0 to 3 do
        let i = d * 4 + b in
        if i < nb && l.(i) then v := !v lor (1 lsl b)
      done;
      Bytes.set buf (nd - 1 - d) "0123456789abcdef".[!v]
    done;
    Bytes.to_string buf

let n_of_int (i : int) : n = n_of_hex (Printf.sprintf "%x" i)

let rec int_of_pos p = match p with XH -> 1 | XO q -> 2 * int_of_pos q | XI q -> 2 * int_of_pos q + 1
let int_of_n x = match x with N0 -> 0 | Npos p -> int_of_pos p

let string_of_rv (r : rv) : string =
  match r with
  | RNone -> "-"
  | RNum x -> "n:" ^ hex_of_n x
  | RBool b -> if b then "b:1" else "b:0"
  | RErr -> "E"
  | RPanic -> "P"
  | ROk -> "K"
  | RNums l -> "l:" ^ String.concat "," (List.map hex_of_n l)
  | RBytes l ->
    let b = Buffer.create (2 * List.length l + 2) in
    Buffer.add_string b "x:";
    List.iter (fun x -> Buffer.add_string b (Printf.sprintf "%02x" (int_of_n x))) l;
    Buffer.contents b

let rv_of_string (s : string) : rv =
  if s = "-" then RNone
  else if s = "E" then RErr
  else if s = "P" then RPanic
  else if s = "K" then ROk
  else if String.length s >= 2 && s.[1] = ':' then begin
    let body = String.sub s 2 (String.length s - 2) in
    match s.[0] with
    | 'n' -> RNum (n_of_hex body)
    | 'b' -> RBool (body = "1")
    | 'l' -> if body = "" then RNums [] else RNums (List.map n_of_hex (String.split_on_char ',' body))
    | 'x' ->
      let n = String.length body / 2 in
      let rec go i acc = if i < 0 then acc else go (i - 1) (n_of_int (hexval body.[2 * i] * 16 + hexval body.[2 * i + 1]) :: acc) in
      RBytes (go (n - 1) [])
    | _ -> failwith ("bad rv " ^ s)
  end else failwith ("bad rv " ^ s)

let () =
  let dump = Array.length Sys.argv > 1 && Sys.argv.(1) = "--dump" in
  let timing = (try Sys.getenv "DRIVER_TIMING" <> "" with Not_found -> false) in
  let cfg = ref { dbg = true; intr = false } in
  let st = ref DNone in
  let data = ref [] in
  let case = ref "" in
  let cases = ref 0 and ops = ref 0 and mism = ref 0 and specchecked = ref 0 in
  let lineno = ref 0 in
  let truncate s = if String.length s > 300 then String.sub s 0 300 ^ "..." else s in
  (try
     while true do
       let line = input_line stdin in
       incr lineno;
       if String.length line = 0 then ()
       else begin
         let toks = List.filter (fun s -> s <> "") (String.split_on_char ' ' line) in
         match toks with
         | "CFG" :: d :: i :: _ -> cfg := { dbg = d = "1"; intr = i = "1" }
         | "C" :: id :: _ -> case := id; st := DNone; data := []; incr cases
         | "D" :: rest -> data := !data @ [ List.map n_of_hex rest ]
         | "O" :: code :: rest ->
           (* O <code> <args...> = <rv> [# comment] *)
           let rec split acc l = match l with
             | "=" :: r :: _ -> (List.rev acc, r)
             | x :: r -> split (x :: acc) r
             | [] -> failwith ("no result on line: " ^ line) in
           let (args, impl_s) = split [] rest in
           let impl = rv_of_string impl_s in
           incr ops;
           let t0 = if timing then Unix.gettimeofday () else 0.0 in
           let ((st', m), sp) =
             try step !cfg !st (n_of_hex code) (List.map n_of_hex args) !data
             with Stack_overflow -> (Printf.printf "DRIVER-ERROR stack overflow at %s line %d\n" !case !lineno; ((!st, RPanic), SAny)) in
           if timing then begin
             let dt = Unix.gettimeofday () -. t0 in
             if dt > 0.05 then Printf.printf "SLOW %s %d %.3fs :: %s\n" !case !lineno dt (truncate line)
           end;
           st := st';
           data := [];
           let ms = string_of_rv m in
           if dump then Printf.printf "R %s %d %s\n" !case !lineno (truncate ms);
           let model_ok = ms = impl_s in
           let (spec_ok, spec_s) = match sp with
             | SAny -> (true, "any")
             | SExact r -> incr specchecked; let s = string_of_rv r in (s = impl_s, s)
             | SPred p -> incr specchecked; (p impl, "pred") in
           if not (model_ok && spec_ok) then begin
             incr mism;
             Printf.printf "MISMATCH %s %d %s impl=%s model=%s spec=%s :: %s\n" !case !lineno
               (if not spec_ok then "impl-vs-spec" else "impl-vs-model")
               (truncate impl_s) (truncate ms) (truncate spec_s) (truncate line)
           end
         | "E" :: _ -> ()
         | "#" :: _ -> ()
         | _ -> failwith ("unparsed line: " ^ line)
       end
     done
   with End_of_file -> ());
  Printf.printf "STATS cases=%d ops=%d mismatches=%d spec_checked=%d\n" !cases !ops !mism !specchecked
