// harness/src/main.rs — runs the real sucds implementation on generated cases and prints a
// transcript (inputs + the implementation's answers) that runner/driver.ml replays on the Coq
// model and spec.  Operation codes are shared with coq/Extract/Dispatch.v.
//
// usage: harness <kind-list> <seed> <tier> [budget]
//   kind-list: comma separated kind numbers (1..25); tier: quick | deep | thorough
// All harness arithmetic is wrapping; panics inside sucds are caught and reported as `P`.
#![allow(clippy::all)]
use std::fmt::Write as FmtWrite;
use std::io::{self, Read, Write};
use std::panic::{catch_unwind, AssertUnwindSafe};

use sucds::bit_vectors::{Access, BitVector, Build, DArray, NumBits, Rank, Rank9Sel, SArray, Select};
use sucds::char_sequences::WaveletMatrix;
use sucds::int_vectors::{CompactVector, DacsByte, DacsOpt, PrefixSummedEliasFano};
use sucds::mii_sequences::{EliasFano, EliasFanoBuilder};
use sucds::Serializable;

// ------------------------------------------------------------------------------------------
struct Rng(u64);
impl Rng {
    fn next(&mut self) -> u64 {
        // splitmix64
        self.0 = self.0.wrapping_add(0x9E3779B97F4A7C15);
        let mut z = self.0;
        z = (z ^ (z >> 30)).wrapping_mul(0xBF58476D1CE4E5B9);
        z = (z ^ (z >> 27)).wrapping_mul(0x94D049BB133111EB);
        z ^ (z >> 31)
    }
    fn below(&mut self, n: u64) -> u64 {
        if n == 0 { 0 } else { self.next() % n }
    }
    fn range(&mut self, lo: u64, hi: u64) -> u64 {
        // inclusive
        lo.wrapping_add(self.below(hi.wrapping_sub(lo).wrapping_add(1)))
    }
    fn chance(&mut self, num: u64, den: u64) -> bool {
        self.below(den) < num
    }
    fn pick<T: Copy>(&mut self, v: &[T]) -> T {
        v[self.below(v.len() as u64) as usize]
    }
}

struct Out {
    buf: String,
    ops: u64,
    stats: std::collections::BTreeMap<String, u64>,
}
impl Out {
    fn case(&mut self, id: &str) {
        writeln!(self.buf, "C {}", id).unwrap();
    }
    fn data(&mut self, v: &[usize]) {
        self.buf.push('D');
        for x in v {
            write!(self.buf, " {:x}", x).unwrap();
        }
        self.buf.push('\n');
    }
    fn op(&mut self, code: u32, args: &[usize], res: String, note: &str) {
        write!(self.buf, "O {:x}", code).unwrap();
        for a in args {
            write!(self.buf, " {:x}", a).unwrap();
        }
        writeln!(self.buf, " = {} # {}", res, note).unwrap();
        self.ops += 1;
    }
    fn end(&mut self) {
        self.buf.push_str("E\n");
        if self.buf.len() > (1 << 20) {
            self.flush();
        }
    }
    fn flush(&mut self) {
        io::stdout().write_all(self.buf.as_bytes()).unwrap();
        self.buf.clear();
    }
    fn stat(&mut self, k: &str) {
        *self.stats.entry(k.to_string()).or_insert(0) += 1;
    }
}

static IN_GUARD: std::sync::atomic::AtomicBool = std::sync::atomic::AtomicBool::new(false);
// A second, independent PRNG stream for generator classes added later: drawing from it leaves the main stream (and
// so every case the earlier evaluations exercised) unchanged.
static AUX: std::sync::atomic::AtomicU64 = std::sync::atomic::AtomicU64::new(0x9E3779B97F4A7C15);
fn aux_next() -> u64 {
    use std::sync::atomic::Ordering::Relaxed;
    let mut z = AUX.load(Relaxed).wrapping_add(0x9E3779B97F4A7C15);
    AUX.store(z, Relaxed);
    z = (z ^ (z >> 30)).wrapping_mul(0xBF58476D1CE4E5B9);
    z = (z ^ (z >> 27)).wrapping_mul(0x94D049BB133111EB);
    z ^ (z >> 31)
}
fn aux_below(n: u64) -> u64 { aux_next() % n }

fn guard<T>(f: impl FnOnce() -> T) -> Option<T> {
    use std::sync::atomic::Ordering::SeqCst;
    IN_GUARD.store(true, SeqCst);
    let r = catch_unwind(AssertUnwindSafe(f)).ok();
    IN_GUARD.store(false, SeqCst);
    r
}
fn r_optnum(f: impl FnOnce() -> Option<usize>) -> String {
    match guard(f) {
        None => "P".into(),
        Some(None) => "-".into(),
        Some(Some(x)) => format!("n:{:x}", x),
    }
}
fn r_optbool(f: impl FnOnce() -> Option<bool>) -> String {
    match guard(f) {
        None => "P".into(),
        Some(None) => "-".into(),
        Some(Some(b)) => format!("b:{}", b as u8),
    }
}
fn r_num(f: impl FnOnce() -> usize) -> String {
    match guard(f) {
        None => "P".into(),
        Some(x) => format!("n:{:x}", x),
    }
}
fn r_unit<E>(f: impl FnOnce() -> Result<(), E>) -> String {
    match guard(f) {
        None => "P".into(),
        Some(Ok(())) => "K".into(),
        Some(Err(_)) => "E".into(),
    }
}
fn r_nums(v: &[usize]) -> String {
    let mut s = String::from("l:");
    for (i, x) in v.iter().enumerate() {
        if i > 0 {
            s.push(',');
        }
        write!(s, "{:x}", x).unwrap();
    }
    s
}
fn r_optnums(f: impl FnOnce() -> Option<Vec<usize>>) -> String {
    match guard(f) {
        None => "P".into(),
        Some(None) => "-".into(),
        Some(Some(v)) => r_nums(&v),
    }
}

// ------------------------------------------------------------------------------------------
// argument generators: boundary set of DESIGN.md section 5.2 plus random draws
fn boundary_args(rng: &mut Rng, n: usize, extra: &[usize], randoms: usize) -> Vec<usize> {
    let mut v = vec![
        0, 1, 2, 62, 63, 64, 65, 127, 128, 511, 512, 513, 1023, 1024, 1025,
        n.wrapping_sub(2), n.wrapping_sub(1), n, n.wrapping_add(1), n.wrapping_add(2), n / 2,
        n.wrapping_add(63), n.wrapping_add(64), 1usize << 32, 1usize << 62, 1usize << 63,
        (1usize << 63).wrapping_add(1), usize::MAX - 1, usize::MAX, usize::MAX / 3,
    ];
    v.extend_from_slice(extra);
    for _ in 0..randoms {
        if n > 0 && rng.chance(4, 5) {
            v.push(rng.below((n as u64).saturating_add(2)) as usize);
        } else {
            v.push(rng.next() as usize);
        }
    }
    v.sort_unstable();
    v.dedup();
    v
}

// bit strings: length classes and density classes
fn gen_len(rng: &mut Rng, tier: &str, cap: usize) -> usize {
    let c = rng.below(100);
    let l = if c < 25 {
        rng.range(0, 70)
    } else if c < 40 {
        rng.range(500, 600)
    } else if c < 60 {
        rng.range(1000, 4200)
    } else if c < 72 {
        // around multiples of 512 / 1024 / 64
        let base = rng.pick(&[64u64, 128, 512, 1024, 2048, 4096, 8192]);
        base * rng.range(1, 4) + rng.range(0, 2) - 1
    } else if c < 88 {
        rng.range(60_000, 80_000)
    } else {
        rng.range(140_000, 220_000)
    };
    let l = if tier == "thorough" && rng.chance(1, 25) { rng.range(400_000, 1_000_000) } else { l };
    (l as usize).min(cap)
}

fn gen_bits(rng: &mut Rng, len: usize, out: &mut Out) -> Vec<bool> {
    let mut bits = gen_bits_raw(rng, len, out);
    // the same shapes for zeros: complement half of the time
    if rng.chance(1, 2) {
        out.stat("bits:complemented");
        bits.iter_mut().for_each(|b| *b = !*b);
    }
    bits
}

// block-structure families for DArray (they choose their own length):
//  * `c` consecutive ones, then one more at distance 65534..65537 from the first (c a multiple of 32 makes
//    the far one a sub-block head), optionally followed by ones that complete the 1024-block;
//  * a sparse block (1024 ones spread over >= 65536 bits) followed and/or preceded by dense blocks.
fn gen_block_family(rng: &mut Rng, out: &mut Out) -> (Vec<bool>, Vec<usize>) {
    let mut bits: Vec<bool> = vec![];
    let mut hot: Vec<usize> = vec![];   // ranks (k of select) of the ones placed at the far end of an exact span
    if rng.chance(1, 2) {
        out.stat("bits:exact-span");
        let lead = rng.pick(&[0usize, 1, 5, 63, 64, 200]);
        bits.extend(std::iter::repeat(false).take(lead));
        if rng.chance(1, 3) {
            // a dense block first
            bits.extend((0..rng.range(1100, 2300)).map(|_| true));
            bits.extend(std::iter::repeat(false).take(rng.below(100) as usize));
        }
        let first = bits.len();
        let c = rng.pick(&[1usize, 31, 32, 33, 64, 96, 512, 992, 1000, 1023]);
        bits.extend(std::iter::repeat(true).take(c));
        let d = rng.pick(&[65535usize, 65535, 65536, 65536, 65536, 65537, 65534]);
        while bits.len() < first + d { bits.push(false); }
        let before = bits.iter().filter(|&&b| b).count();
        hot.extend_from_slice(&[before, before.wrapping_sub(1), before + 1, before - c, before - c + 32]);
        bits.push(true);
        match rng.below(4) {
            0 | 1 => {}
            2 => { let k = rng.below(1100) as usize; bits.extend(std::iter::repeat(true).take(k)); }
            _ => { for _ in 0..rng.range(10, 3000) { bits.push(rng.chance(1, 2)); } }
        }
    } else {
        out.stat("bits:sparse-dense-blocks");
        let nblocks = rng.range(2, 4);
        for _ in 0..nblocks {
            if rng.chance(1, 2) {
                // sparse: ~1024 ones spread over 66000..100000 bits
                let span = rng.range(66_000, 100_000) as usize;
                let ones = rng.range(900, 1200);
                let start = bits.len();
                bits.extend(std::iter::repeat(false).take(span));
                for _ in 0..ones { let p = start + rng.below(span as u64) as usize; bits[p] = true; }
            } else {
                let span = rng.range(1200, 5000) as usize;
                for _ in 0..span { bits.push(rng.chance(7, 8)); }
            }
        }
    }
    (bits, hot)
}

fn gen_bits_raw(rng: &mut Rng, len: usize, out: &mut Out) -> Vec<bool> {
    // the main stream is consumed exactly as before; the classes added later draw from the auxiliary stream only
    let main = gen_bits_raw_main(rng, len, out);
    let mut bits = vec![false; len];
    match aux_below(13) {
        11 => {
            // a few tight clusters in a long, otherwise empty vector (one of them often near the start): many
            // elements in one Elias-Fano bucket, queries before / inside / after a cluster
            out.stat("bits:clusters");
            let k = 1 + aux_below(4);
            for c in 0..k {
                if len < 64 { break; }
                let size = 10 + aux_below(35) as usize;
                let start = if c == 0 && aux_below(2) == 0 { aux_below(200.min(len as u64 - 50)) as usize } else { aux_below(len as u64 - 50) as usize };
                for j in start..(start + size).min(len) { bits[j] = aux_below(10) != 0; }
            }
            bits
        }
        12 => {
            // clustered 1024-blocks: repetitions of a few ones, a long gap (inside one sub-block), then the rest of the
            // block densely packed -- dense blocks whose sub-block spans are very uneven
            out.stat("bits:clustered-blocks");
            let a = 1 + aux_below(32) as usize;
            let gap = 3000 + aux_below(3000) as usize;
            let mut i = 0;
            while i + a + gap + 1024 <= len {
                for j in i..i + a { bits[j] = true; }
                for j in i + a + gap..i + a + gap + (1024 - a) { bits[j] = true; }
                i += a + gap + (1024 - a);
            }
            bits
        }
        _ => main,
    }
}

fn gen_bits_raw_main(rng: &mut Rng, len: usize, out: &mut Out) -> Vec<bool> {
    let class = rng.below(11);
    let mut bits = vec![false; len];
    match class {
        0 => out.stat("bits:all-zero"),
        1 => {
            out.stat("bits:all-one");
            bits.iter_mut().for_each(|b| *b = true)
        }
        2 => {
            out.stat("bits:half");
            bits.iter_mut().for_each(|b| *b = rng.chance(1, 2))
        }
        3 => {
            out.stat("bits:1/64");
            bits.iter_mut().for_each(|b| *b = rng.chance(1, 64))
        }
        4 => {
            out.stat("bits:63/64");
            bits.iter_mut().for_each(|b| *b = rng.chance(63, 64))
        }
        5 => {
            out.stat("bits:1/1000");
            bits.iter_mut().for_each(|b| *b = rng.chance(1, 1000))
        }
        6 => {
            out.stat("bits:dense-then-sparse");
            let cut = rng.below((len as u64).saturating_add(1)) as usize;
            for (i, b) in bits.iter_mut().enumerate() {
                *b = if i < cut { rng.chance(9, 10) } else { rng.chance(1, 3000) };
            }
        }
        7 => {
            out.stat("bits:dense-prefix");
            let cut = (len / 3).max(1);
            for (i, b) in bits.iter_mut().enumerate() { *b = i < cut || rng.chance(1, 500); }
        }
        8 => {
            out.stat("bits:single");
            if len > 0 {
                let p = rng.pick(&[0usize, len - 1, len / 2]);
                bits[p] = true;
            }
        }
        9 => {
            out.stat("bits:alternating-blocks");
            // alternating dense / sparse stretches so that DArray sees dense and overflow blocks
            let mut i = 0;
            let mut dense = rng.chance(1, 2);
            while i < len {
                let stretch = if dense { rng.range(500, 3000) } else { rng.range(30_000, 90_000) } as usize;
                for j in i..(i + stretch).min(len) {
                    bits[j] = if dense { rng.chance(7, 8) } else { rng.chance(1, 20_000) };
                }
                i += stretch;
                dense = !dense;
            }
        }
        _ => {
            out.stat("bits:runs");
            let mut v = rng.chance(1, 2);
            let mut i = 0;
            while i < len {
                let run = rng.range(1, 200) as usize;
                for j in i..(i + run).min(len) {
                    bits[j] = v;
                }
                i += run;
                v = !v;
            }
        }
    }
    bits
}

fn words_of(bits: &[bool]) -> Vec<usize> {
    BitVector::from_bits(bits.iter().cloned()).words().to_vec()
}

// select arguments: around the count, multiples of the hint period / block sizes
fn select_args(rng: &mut Rng, cnt: usize, randoms: usize) -> Vec<usize> {
    let mut extra = vec![];
    for m in [31usize, 32, 33, 1023, 1024, 1025, 2047, 2048, 2049, 3072, 4095, 4096] {
        extra.push(m);
    }
    if cnt > 0 {
        for _ in 0..randoms {
            let k = rng.below(cnt as u64) as usize;
            extra.push(k);
            extra.push(k / 1024 * 1024);
            extra.push((k / 1024 * 1024).wrapping_sub(1));
            extra.push(k / 32 * 32);
        }
    }
    boundary_args(rng, cnt, &extra, 4)
}

// ------------------------------------------------------------------------------------------
// serialization ops shared by all kinds (C08, C13, C19)
struct LimitedWriter {
    budget: usize,
    written: Vec<u8>,
}
impl Write for LimitedWriter {
    fn write(&mut self, buf: &[u8]) -> io::Result<usize> {
        if buf.is_empty() {
            return Ok(0);
        }
        let room = self.budget - self.written.len();
        if room == 0 {
            return Err(io::Error::new(io::ErrorKind::Other, "disk full"));
        }
        let n = room.min(buf.len());
        self.written.extend_from_slice(&buf[..n]);
        Ok(n)
    }
    fn flush(&mut self) -> io::Result<()> {
        Ok(())
    }
}
// schedule entries: 0 = report Interrupted, k>0 = transfer at most k bytes; exhausted = unrestricted
struct SchedReader<'a> {
    data: &'a [u8],
    pos: usize,
    sched: Vec<usize>,
    at: usize,
}
impl<'a> Read for SchedReader<'a> {
    fn read(&mut self, buf: &mut [u8]) -> io::Result<usize> {
        let lim = if self.at < self.sched.len() {
            let s = self.sched[self.at];
            self.at += 1;
            if s == 0 {
                return Err(io::Error::new(io::ErrorKind::Interrupted, "eintr"));
            }
            s
        } else {
            usize::MAX
        };
        let n = buf.len().min(lim).min(self.data.len() - self.pos);
        buf[..n].copy_from_slice(&self.data[self.pos..self.pos + n]);
        self.pos += n;
        Ok(n)
    }
}
struct SchedWriter {
    written: Vec<u8>,
    sched: Vec<usize>,
    at: usize,
}
impl Write for SchedWriter {
    fn write(&mut self, buf: &[u8]) -> io::Result<usize> {
        let lim = if self.at < self.sched.len() {
            let s = self.sched[self.at];
            self.at += 1;
            if s == 0 {
                return Err(io::Error::new(io::ErrorKind::Interrupted, "eintr"));
            }
            s
        } else {
            usize::MAX
        };
        let n = buf.len().min(lim);
        self.written.extend_from_slice(&buf[..n]);
        Ok(n)
    }
    fn flush(&mut self) -> io::Result<()> {
        Ok(())
    }
}

fn gen_sched(rng: &mut Rng) -> Vec<usize> {
    let n = rng.range(1, 40) as usize;
    (0..n)
        .map(|_| {
            if rng.chance(1, 4) {
                0
            } else if rng.chance(1, 2) {
                rng.range(1, 3) as usize
            } else {
                rng.range(1, 64) as usize
            }
        })
        .collect()
}

fn ser_ops<T: Serializable + PartialEq>(x: &T, rng: &mut Rng, out: &mut Out, tier: &str) {
    let mut bytes = vec![];
    let ret = guard(|| x.serialize_into(&mut bytes));
    let ser_res = match &ret {
        None => "P".to_string(),
        Some(Err(_)) => "E".to_string(),
        Some(Ok(_)) => {
            let mut s = String::with_capacity(bytes.len() * 2 + 2);
            s.push_str("x:");
            for b in &bytes {
                write!(s, "{:02x}", b).unwrap();
            }
            s
        }
    };
    out.op(99, &[], ser_res, "serialize_into bytes");
    out.op(98, &[], r_num(|| x.size_in_bytes()), "size_in_bytes");
    // returned count with an unrestricted budget
    out.op(96, &[usize::MAX], match &ret { Some(Ok(n)) => format!("n:{:x}", n), Some(Err(_)) => "E".into(), None => "P".into() },
           "serialize_into return value");
    let size = bytes.len();
    // round trip with trailing junk
    {
        let mut with_junk = bytes.clone();
        with_junk.extend_from_slice(&[1, 2, 3]);
        let r = guard(|| {
            let mut rd: &[u8] = &with_junk;
            match T::deserialize_from(&mut rd) {
                Ok(v) => v == *x && rd.len() == 3,
                Err(_) => false,
            }
        });
        out.op(95, &[], match r { None => "P".into(), Some(b) => format!("b:{}", b as u8) }, "round trip + junk");
    }
    // truncation offsets: all of them for small instances, boundaries + random for large ones
    let mut offs: Vec<usize> = vec![];
    let exhaustive_cap = if (tier == "thorough" || tier == "deep") { 2048 } else { 600 };
    if size <= exhaustive_cap {
        offs.extend(0..size);
        out.stat("trunc:exhaustive-instance");
    } else {
        offs.extend(0..40);
        offs.extend((size - 40)..size);
        for _ in 0..(if (tier == "thorough" || tier == "deep") { 300 } else { 60 }) {
            let o = rng.below(size as u64) as usize;
            offs.push(o);
            offs.push(o / 8 * 8);
            offs.push((o / 8 * 8).wrapping_sub(1).min(size - 1));
            offs.push((o / 8 * 8 + 1).min(size - 1));
        }
        out.stat("trunc:sampled-instance");
    }
    offs.sort_unstable();
    offs.dedup();
    for &n in &offs {
        let r = guard(|| T::deserialize_from(&bytes[..n]).is_ok());
        out.op(97, &[n], match r { None => "P".into(), Some(true) => "K".into(), Some(false) => "E".into() }, "deserialize prefix");
    }
    // write budgets
    let mut budgets: Vec<usize> = if size <= exhaustive_cap { (0..=size).collect() } else {
        let mut v: Vec<usize> = (0..20).collect();
        v.extend((size - 20)..=size);
        for _ in 0..40 { v.push(rng.below((size as u64).saturating_add(1)) as usize); }
        v
    };
    budgets.sort_unstable();
    budgets.dedup();
    for &b in &budgets {
        let r = guard(|| {
            let mut w = LimitedWriter { budget: b, written: vec![] };
            x.serialize_into(&mut w).ok()
        });
        out.op(96, &[b], match r { None => "P".into(), Some(None) => "E".into(), Some(Some(n)) => format!("n:{:x}", n) }, "write budget");
    }
    // schedules
    let nsched = if (tier == "thorough" || tier == "deep") { 12 } else { 3 };
    for _ in 0..nsched {
        let sched = gen_sched(rng);
        let r = guard(|| {
            let mut rd = SchedReader { data: &bytes, pos: 0, sched: sched.clone(), at: 0 };
            match T::deserialize_from(&mut rd) {
                Ok(v) => v == *x && rd.pos == bytes.len(),
                Err(_) => false,
            }
        });
        out.op(94, &sched, match r { None => "P".into(), Some(b) => format!("b:{}", b as u8) }, "scheduled reader");
        let sched = gen_sched(rng);
        let r = guard(|| {
            let mut w = SchedWriter { written: vec![], sched: sched.clone(), at: 0 };
            match x.serialize_into(&mut w) {
                Ok(n) => n == bytes.len() && w.written == bytes,
                Err(_) => false,
            }
        });
        out.op(93, &sched, match r { None => "P".into(), Some(b) => format!("b:{}", b as u8) }, "scheduled writer");
    }
}

// ------------------------------------------------------------------------------------------
// kind 1: BitVector histories
fn kind_bitvec(rng: &mut Rng, out: &mut Out, id: &str, tier: &str) {
    out.case(id);
    out.op(1001, &[], "K".into(), "BitVector::new");
    let mut bv = BitVector::new();
    let nops = rng.range(1, if (tier == "thorough" || tier == "deep") { 200 } else { 80 }) as usize;
    let chunk_lens = [0usize, 1, 2, 7, 31, 32, 33, 63, 64, 65, 66, 100, usize::MAX];
    for _ in 0..nops {
        let n = bv.len();
        let c = rng.below(100);
        if c < 4 {
            let bit = rng.chance(1, 2);
            let len = rng.pick(&[0usize, 1, 63, 64, 65, 127, 128, 129, 200, 1000]);
            bv = BitVector::from_bit(bit, len);
            out.op(1, &[bit as usize, len], "K".into(), "from_bit");
        } else if c < 8 {
            let len = rng.range(0, 300) as usize;
            let bits: Vec<usize> = (0..len).map(|_| rng.chance(1, 2) as usize).collect();
            out.data(&bits);
            bv = BitVector::from_bits(bits.iter().map(|&b| b != 0));
            out.op(2, &[], "K".into(), "from_bits");
        } else if c < 30 {
            let bit = rng.chance(1, 2);
            bv.push_bit(bit);
            out.op(3, &[bit as usize], "K".into(), "push_bit");
        } else if c < 55 {
            let len = rng.pick(&chunk_lens);
            let bits = if rng.chance(1, 3) { usize::MAX } else { rng.next() as usize }; // garbage above len
            let r = r_unit(|| bv.push_bits(bits, len));
            out.op(4, &[bits, len], r, "push_bits");
        } else if c < 68 {
            let pos = pick_pos(rng, n);
            let bit = rng.chance(1, 2);
            let r = r_unit(|| bv.set_bit(pos, bit));
            out.op(5, &[pos, bit as usize], r, "set_bit");
        } else if c < 88 {
            let len = rng.pick(&chunk_lens);
            let pos = if rng.chance(1, 4) && len <= n { n - len } else if rng.chance(1, 8) { (n + 1).wrapping_sub(len) } else { pick_pos(rng, n) };
            let bits = if rng.chance(1, 3) { usize::MAX } else { rng.next() as usize };
            let r = r_unit(|| bv.set_bits(pos, bits, len));
            out.op(6, &[pos, bits, len], r, "set_bits");
        } else if c < 94 {
            let len = rng.range(0, 130) as usize;
            let bits: Vec<usize> = (0..len).map(|_| rng.chance(1, 2) as usize).collect();
            out.data(&bits);
            bv.extend(bits.iter().map(|&b| b != 0));
            out.op(7, &[], "K".into(), "extend");
        } else {
            // interleaved reads
            let pos = pick_pos(rng, n);
            let len = rng.pick(&chunk_lens);
            out.op(12, &[pos, len], r_optnum(|| bv.get_bits(pos, len)), "get_bits");
            out.op(11, &[pos], r_optbool(|| bv.get_bit(pos)), "get_bit");
        }
    }
    bitvec_reads(&bv, rng, out, tier);
    ser_ops(&bv, rng, out, tier);
    out.end();
}

fn pick_pos(rng: &mut Rng, n: usize) -> usize {
    let c = rng.below(100);
    if c < 55 {
        rng.below((n as u64).saturating_add(1)) as usize
    } else if c < 70 {
        let w = rng.below(n as u64 / 64 + 2) as usize * 64;
        w.wrapping_add(rng.range(0, 2) as usize).wrapping_sub(1)
    } else if c < 85 {
        n.wrapping_add(rng.range(0, 3) as usize).wrapping_sub(1)
    } else {
        rng.pick(&[usize::MAX, usize::MAX - 1, usize::MAX - 63, 1usize << 63, (1usize << 63) + 64, usize::MAX / 2])
    }
}

fn bitvec_reads(bv: &BitVector, rng: &mut Rng, out: &mut Out, tier: &str) {
    let n = bv.len();
    let r = if (tier == "thorough" || tier == "deep") { 24 } else { 8 };
    out.op(10, &[], r_num(|| bv.len()), "len");
    out.op(22, &[], r_num(|| bv.num_ones()), "num_ones");
    let ones = bv.num_ones();
    for &p in &boundary_args(rng, n, &[], r) {
        out.op(11, &[p], r_optbool(|| bv.get_bit(p)), "get_bit");
        out.op(13, &[p], r_optnum(|| bv.get_word64(p)), "get_word64");
        out.op(14, &[p], r_optnum(|| bv.rank1(p)), "rank1");
        out.op(15, &[p], r_optnum(|| bv.rank0(p)), "rank0");
        out.op(18, &[p], r_optnum(|| bv.predecessor1(p)), "predecessor1");
        out.op(19, &[p], r_optnum(|| bv.predecessor0(p)), "predecessor0");
        out.op(20, &[p], r_optnum(|| bv.successor1(p)), "successor1");
        out.op(21, &[p], r_optnum(|| bv.successor0(p)), "successor0");
        for &l in &[0usize, 1, 13, 63, 64, 65, usize::MAX] {
            out.op(12, &[p, l], r_optnum(|| bv.get_bits(p, l)), "get_bits");
        }
    }
    for &k in &select_args(rng, ones, r / 2) {
        out.op(16, &[k], r_optnum(|| bv.select1(k)), "select1");
    }
    for &k in &select_args(rng, n - ones, r / 2) {
        out.op(17, &[k], r_optnum(|| bv.select0(k)), "select0");
    }
    if n <= 5000 {
        let v: Vec<usize> = bv.iter().take(n + 8).map(|b| b as usize).collect();
        out.op(24, &[], r_nums(&v), "iter");
        let rebuilt = BitVector::from_bits(bv.iter().take(n + 8));
        out.op(25, &[], format!("b:{}", (rebuilt == *bv) as u8), "eq rebuilt");
    }
    // Iter: next / size_hint interleavings, incl. after exhaustion
    if n <= 600 {
        let mut it = bv.iter();
        out.op(40, &[], "K".into(), "iter()");
        let mut steps = 0;
        let mut calls = 0;
        loop {
            calls += 1;
            if calls > n + 12 { break; }          // an iterator that never ends shows as extra elements, not as a hang
            if rng.chance(1, 3) {
                hint_op(&it, out);
            }
            let x = it.next();
            out.op(41, &[], match x { None => "-".into(), Some(b) => format!("b:{}", b as u8) }, "next");
            if x.is_none() {
                steps += 1;
                if steps >= 3 {
                    break;
                }
            }
        }
        hint_op(&it, out);
        iter_provided(Some(bv.iter()), &|b: bool| format!("b:{}", b as u8), (40, vec![]), 41, n, rng, out);
        let p = rng.below(n as u64 + 1) as usize;
        iter_provided(guard(|| bv.unary_iter(p)), &|q: usize| format!("n:{:x}", q), (30, vec![p]), 31, n, rng, out);
    }
    // unary iterator: next-only runs and skip-only runs, from several start offsets <= len
    let mut starts = vec![0usize, n, n / 2, n.saturating_sub(1), n / 64 * 64];
    starts.push(rng.below((n as u64).saturating_add(1)) as usize);
    starts.sort_unstable();
    starts.dedup();
    for &p in &starts {
        // next-only
        let made = guard(|| bv.unary_iter(p));
        match made {
            None => {
                out.op(30, &[p], "P".into(), "unary_iter");
                continue;
            }
            Some(mut it) => {
                out.op(30, &[p], "K".into(), "unary_iter");
                let mut after = 0;
                let mut cnt = 0;
                while after < 3 && cnt < 300 {
                    let x = guard(AssertUnwindSafe(|| it.next()));
                    match x {
                        None => {
                            out.op(31, &[], "P".into(), "unary next");
                            break;
                        }
                        Some(v) => {
                            out.op(31, &[], match v { None => "-".into(), Some(q) => format!("n:{:x}", q) }, "unary next");
                            if v.is_none() {
                                after += 1;
                            }
                        }
                    }
                    cnt += 1;
                }
            }
        }
        // skip-only
        if let Some(mut it) = guard(|| bv.unary_iter(p)) {
            out.op(30, &[p], "K".into(), "unary_iter");
            let nsk = rng.range(1, if (tier == "thorough" || tier == "deep") { 50 } else { 14 });
            for _ in 0..nsk {
                let k = match rng.below(10) {
                    0 => 0,
                    1 => 1,
                    2 => 63,
                    3 => 64,
                    4 => rng.below(200) as usize,
                    5 => usize::MAX,
                    6 => n,
                    _ => rng.below(6) as usize,
                };
                if rng.chance(1, 2) {
                    let x = guard(AssertUnwindSafe(|| it.skip1(k)));
                    out.op(32, &[k], match x { None => "P".into(), Some(None) => "-".into(), Some(Some(q)) => format!("n:{:x}", q) }, "skip1");
                    if x.is_none() { break; }
                } else {
                    let x = guard(AssertUnwindSafe(|| it.skip0(k)));
                    out.op(33, &[k], match x { None => "P".into(), Some(None) => "-".into(), Some(Some(q)) => format!("n:{:x}", q) }, "skip0");
                    if x.is_none() { break; }
                }
            }
        }
    }
}

// kind 1b: BitVector reads on large vectors (built directly)
fn kind_bitvec_big(rng: &mut Rng, out: &mut Out, id: &str, tier: &str) {
    let len = gen_len(rng, tier, 8000);
    let bits = gen_bits(rng, len, out);
    out.case(id);
    out.op(1001, &[], "K".into(), "BitVector::new");
    let b: Vec<usize> = bits.iter().map(|&b| b as usize).collect();
    out.data(&b);
    let bv = BitVector::from_bits(bits.iter().cloned());
    out.op(2, &[], "K".into(), "from_bits");
    bitvec_reads(&bv, rng, out, tier);
    out.end();
}

// ------------------------------------------------------------------------------------------
// kinds 2,3,4: Rank9Sel / DArray / SArray
fn bv_queries<B: Access + Rank + Select + NumBits>(
    x: &B, n: usize, ones: usize, rng: &mut Rng, out: &mut Out, tier: &str, rank: bool, sel1: bool, sel0: bool,
) {
    let r = if (tier == "thorough" || tier == "deep") { 40 } else { 12 };
    out.op(10, &[], r_num(|| x.num_bits()), "num_bits");
    out.op(22, &[], r_num(|| x.num_ones()), "num_ones");
    for &p in &boundary_args(rng, n, &[], r) {
        out.op(11, &[p], r_optbool(|| x.access(p)), "access");
        if rank {
            out.op(14, &[p], r_optnum(|| x.rank1(p)), "rank1");
            out.op(15, &[p], r_optnum(|| x.rank0(p)), "rank0");
        }
    }
    if sel1 {
        for &k in &select_args(rng, ones, r) {
            out.op(16, &[k], r_optnum(|| x.select1(k)), "select1");
        }
    }
    if sel0 {
        for &k in &select_args(rng, n - ones, r) {
            out.op(17, &[k], r_optnum(|| x.select0(k)), "select0");
        }
    }
}

fn kind_rank9(rng: &mut Rng, out: &mut Out, id: &str, tier: &str) {
    let len = gen_len(rng, tier, usize::MAX);
    let bits = if rng.chance(1, 10) { gen_block_family(rng, out).0 } else { gen_bits(rng, len, out) };
    let len = bits.len();
    let ones = bits.iter().filter(|&&b| b).count();
    let (h1, h0) = (rng.chance(1, 2), rng.chance(1, 2));
    let via_trait = rng.chance(1, 2);
    out.case(id);
    out.data(&words_of(&bits));
    let wr_flag = rng.chance(1, 2);
    let built = guard(|| if via_trait {
        Rank9Sel::build_from_bits(bits.iter().cloned(), wr_flag, h1, h0).unwrap()
    } else {
        let mut x = Rank9Sel::from_bits(bits.iter().cloned());
        // (asking for an index twice must change nothing: answers, equality, size)
        if h1 { x = x.select1_hints(); if aux_below(3) == 0 { x = x.select1_hints(); } }
        if h0 { x = x.select0_hints(); if aux_below(3) == 0 { x = x.select0_hints(); } }
        x
    });
    let x = match built {
        Some(x) => x,
        None => { out.op(1002, &[len, h1 as usize, h0 as usize], "P".into(), "Rank9Sel construction panicked"); out.end(); return; }
    };
    out.op(1002, &[len, h1 as usize, h0 as usize], "K".into(), if via_trait { "Rank9Sel via Build" } else { "Rank9Sel via builder methods" });
    if len >= 1024 { out.stat("r9:second-hint-chunk"); }
    if len > 512 { out.stat("r9:second-block"); }
    if len % 512 != 0 { out.stat("r9:partial-last-block"); }
    out.op(23, &[], r_num(|| x.num_zeros()), "num_zeros");
    bv_queries(&x, len, ones, rng, out, tier, true, true, true);
    if len <= 100_000 || (tier == "thorough" || tier == "deep") { ser_ops(&x, rng, out, tier); } else {
        out.op(98, &[], r_num(|| x.size_in_bytes()), "size_in_bytes");
    }
    out.end();
}

fn kind_darray(rng: &mut Rng, out: &mut Out, id: &str, tier: &str) {
    let len = gen_len(rng, tier, usize::MAX);
    let mut hot: Vec<usize> = vec![];
    let mut compl = false;
    let bits = if rng.chance(2, 5) {
        let (mut b, h) = gen_block_family(rng, out);
        hot = h;
        if rng.chance(1, 2) { out.stat("bits:complemented"); compl = true; b.iter_mut().for_each(|x| *x = !*x); }
        b
    } else { gen_bits(rng, len, out) };
    let len = bits.len();
    let ones = bits.iter().filter(|&&b| b).count();
    let (wr, ws0) = (rng.chance(1, 2), rng.chance(1, 2));
    let via_trait = rng.chance(1, 2);
    out.case(id);
    out.data(&words_of(&bits));
    let s1_flag = rng.chance(1, 2);
    let built = guard(|| if via_trait {
        DArray::build_from_bits(bits.iter().cloned(), wr, s1_flag, ws0).unwrap()
    } else {
        let mut x = DArray::from_bits(bits.iter().cloned());
        if wr { x = x.enable_rank(); if aux_below(3) == 0 { x = x.enable_rank(); } }
        if ws0 { x = x.enable_select0(); if aux_below(3) == 0 { x = x.enable_select0(); } }
        x
    });
    let x = match built {
        Some(x) => x,
        None => { out.op(1003, &[len, wr as usize, ws0 as usize], "P".into(), "DArray construction panicked"); out.end(); return; }
    };
    out.op(1003, &[len, wr as usize, ws0 as usize], "K".into(), "DArray");
    if ones > 1024 { out.stat("da:multi-block"); }
    out.op(23, &[], r_num(|| x.num_zeros()), "num_zeros");
    bv_queries(&x, len, ones, rng, out, tier, wr, true, ws0);
    for &k in &hot {
        if !compl { out.op(16, &[k], r_optnum(|| x.select1(k)), "select1"); }
        else if ws0 { out.op(17, &[k], r_optnum(|| x.select0(k)), "select0"); }
    }
    if len <= 100_000 || (tier == "thorough" || tier == "deep") { ser_ops(&x, rng, out, tier); } else {
        out.op(98, &[], r_num(|| x.size_in_bytes()), "size_in_bytes");
    }
    out.end();
}

fn kind_sarray(rng: &mut Rng, out: &mut Out, id: &str, tier: &str) {
    // keep the number of ones moderate: the model rebuilds the high bits bit by bit
    let mut len = gen_len(rng, tier, 220_000);
    let mut bits = gen_bits(rng, len, out);
    let mut ones = bits.iter().filter(|&&b| b).count();
    if ones > 6000 {
        len = len.min(rng.range(100, 9000) as usize);
        bits.truncate(len);
        ones = bits.iter().filter(|&&b| b).count();
    }
    let wr = rng.chance(2, 3);
    out.case(id);
    out.data(&words_of(&bits));
    let via_trait = rng.chance(1, 3);
    let s1_flag = rng.chance(1, 2);
    let built = guard(|| if via_trait {
        // Build::build_from_bits(bits, with_rank, _, with_select0 = false); with_select0 = true must be rejected
        if SArray::build_from_bits(bits.iter().cloned(), wr, true, true).is_ok() { panic!("with_select0 accepted"); }
        SArray::build_from_bits(bits.iter().cloned(), wr, s1_flag, false).unwrap()
    } else {
        let mut x = SArray::from_bits(bits.iter().cloned());
        if wr { x = x.enable_rank(); if aux_below(3) == 0 { x = x.enable_rank(); } }
        x
    });
    let x = match built {
        Some(x) => x,
        None => { out.op(1004, &[len, wr as usize], "P".into(), "SArray construction panicked"); out.end(); return; }
    };
    out.op(1004, &[len, wr as usize], "K".into(), if via_trait { "SArray via Build" } else { "SArray" });
    if ones == 0 { out.stat("sa:no-ones"); }
    let r = if (tier == "thorough" || tier == "deep") { 40 } else { 12 };
    out.op(10, &[], r_num(|| x.num_bits()), "num_bits");
    out.op(22, &[], r_num(|| x.num_ones()), "num_ones");
    // probes: boundary positions, and positions of set bits (with their neighbours) all over the vector
    let one_pos: Vec<usize> = bits.iter().enumerate().filter(|(_, &b)| b).map(|(i, _)| i).collect();
    let mut extra = vec![];
    for _ in 0..(2 * r) {
        if !one_pos.is_empty() {
            let q = one_pos[rng.below(one_pos.len() as u64) as usize];
            extra.extend_from_slice(&[q, q.wrapping_sub(1), q + 1]);
        }
    }
    for &p in &boundary_args(rng, len, &extra, r) {
        out.op(11, &[p], r_optbool(|| x.access(p)), "access");
        if wr {
            out.op(14, &[p], r_optnum(|| x.rank1(p)), "rank1");
            out.op(15, &[p], r_optnum(|| x.rank0(p)), "rank0");
            out.op(18, &[p], r_optnum(|| x.predecessor1(p)), "predecessor1");
            out.op(20, &[p], r_optnum(|| x.successor1(p)), "successor1");
        }
    }
    for &k in &select_args(rng, ones, r) {
        out.op(16, &[k], r_optnum(|| x.select1(k)), "select1");
    }
    ser_ops(&x, rng, out, tier);
    out.end();
}

// ------------------------------------------------------------------------------------------
// kind 5: EliasFanoBuilder histories then the built EliasFano; kind 12: EliasFano::from_bits
fn ef_queries(ef: &EliasFano, xs: &[usize], u: usize, rng: &mut Rng, out: &mut Out, tier: &str, has_rank: bool) {
    let n = xs.len();
    let r = if (tier == "thorough" || tier == "deep") { 40 } else { 12 };
    out.op(10, &[], r_num(|| ef.len()), "len");
    out.op(60, &[], r_num(|| ef.universe()), "universe");
    for &k in &boundary_args(rng, n, &[], r) {
        out.op(61, &[k], r_optnum(|| ef.select(k)), "select");
        out.op(62, &[k], r_optnum(|| ef.delta(k)), "delta");
    }
    // probes: stored values and their neighbours, universe boundary, anywhere
    let mut probes = vec![u.wrapping_sub(1), u, u.wrapping_add(1)];
    for _ in 0..r {
        if n > 0 {
            let x = xs[rng.below(n as u64) as usize];
            probes.extend_from_slice(&[x, x.wrapping_sub(1), x.wrapping_add(1)]);
        }
        if u > 0 { probes.push(rng.below(u as u64) as usize); }
    }
    let probes = boundary_args(rng, u, &probes, 2);
    for &p in &probes {
        if has_rank && n > 0 {
            out.op(63, &[p], r_optnum(|| ef.rank(p)), "rank");
            out.op(64, &[p], r_optnum(|| ef.predecessor(p)), "predecessor");
            out.op(65, &[p], r_optnum(|| ef.successor(p)), "successor");
        }
        if n > 0 {
            out.op(66, &[p], r_optnum(|| ef.binsearch(p)), "binsearch");
        }
    }
    if n > 0 {
        for _ in 0..r {
            let a = pick_pos(rng, n);
            let b = if rng.chance(3, 4) { rng.range(a as u64, (n as u64).saturating_add(1)) as usize } else { pick_pos(rng, n) };
            let v = if rng.chance(2, 3) { xs[rng.below(n as u64) as usize] } else { rng.below((u as u64).saturating_add(1)) as usize };
            out.op(67, &[a, b, v], r_optnum(|| ef.binsearch_range(a..b, v)), "binsearch_range");
        }
    }
    // iter(k): from several offsets; next() past exhaustion
    let mut starts = vec![0usize, n, n / 2, n.saturating_sub(1), n + 1, usize::MAX];
    starts.push(rng.below((n as u64).saturating_add(1)) as usize);
    for &k in &starts {
        let it = guard(|| ef.iter(k));
        match it {
            None => out.op(68, &[k], "P".into(), "iter(k)"),
            Some(mut it) => {
                out.op(68, &[k], "K".into(), "iter(k)");
                let mut after = 0;
                let mut cnt = 0;
                while after < 3 && cnt < 400 {
                    match guard(AssertUnwindSafe(|| it.next())) {
                        None => { out.op(69, &[], "P".into(), "ef next"); break; }
                        Some(v) => {
                            out.op(69, &[], match v { None => "-".into(), Some(q) => format!("n:{:x}", q) }, "ef next");
                            if v.is_none() { after += 1; }
                        }
                    }
                    cnt += 1;
                }
            }
        }
    }
    if n <= 2000 {
        let k = rng.below(n as u64 + 1) as usize;
        iter_provided(guard(|| ef.iter(k)), &|q: usize| format!("n:{:x}", q), (68, vec![k]), 69, n, rng, out);
    }
}

fn gen_universe(rng: &mut Rng, m: usize) -> usize {
    match rng.below(10) {
        0 => if rng.chance(1, 6) { 0 } else { rng.range(1, (m as u64).saturating_add(1)) as usize },   // u <= m: low width 0 (and the empty universe)
        1 => usize::MAX,
        2 => usize::MAX - rng.below(3) as usize,
        3 => (m as u64 * rng.range(1, 5)) as usize,
        _ => {
            let w = rng.range(1, 63);
            ((1u64 << w).wrapping_add(rng.range(0, 2)).wrapping_sub(1) as usize).max(1)
        }
    }
}

// Elias-Fano inputs whose high-bits vector has a 1024-block of ones spanning 65534..=65538 positions: the
// dense / sparse decision of the DArray index built over it.  The block is the last (partial) one or is followed
// by dense elements; with `distinct` the values are strictly increasing (positions of set bits).  Returns the low
// width the tight universe `last + 1` yields, the values and the indices worth probing.
fn gen_ef_edge(rng: &mut Rng, distinct: bool, out: &mut Out, sid: u64) -> Option<(usize, Vec<usize>, Vec<usize>)> {
    let l: usize = if distinct { rng.pick(&[1usize, 2, 3]) } else { rng.pick(&[0usize, 0, 1, 3]) };
    // prefix slope in value space (per element): num/den
    let (num, den): (usize, usize) = if distinct { (1, 1) } else { rng.pick(&[(0usize, 1usize), (0, 1), (1, 4), (1, 4), (1, 1)]) };
    let mut m: usize = match rng.below(6) {
        0 => 33, 1 => 65, 2 => 1024, 3 => 32 * rng.range(1, 32) as usize + 1, 4 => 32 * rng.range(1, 32) as usize,
        _ => rng.range(2, 1025) as usize,
    };
    let mut span: usize = 65536 + rng.pick(&[0usize, 0, 0, 1, 2]) - rng.pick(&[0usize, 0, 1, 2]);
    let mut tail: usize = rng.pick(&[0usize, 0, 40, 1100]);
    // the shards of one run cover the corner combinations systematically (shard id from the seed layout of ./check)
    match sid % 8 {
        0 => { span = 65536; m = 33; tail = 0; }
        1 => { span = 65536; m = 32 * rng.range(1, 32) as usize + 1; tail = 0; }
        2 => { span = 65535; m = 32 * rng.range(1, 32) as usize + 1; tail = 0; }
        3 => { span = 65536 + rng.range(1, 3) as usize; tail = 1100; }
        4 => { span = 65536; m = 1024; tail = 40; }
        5 => { span = 65536; m = 32 * rng.range(1, 32) as usize + 1; tail = rng.pick(&[0usize, 40]); }
        _ => {}
    }
    let skip = rng.below(3);
    let mut found = 0;
    for b in 1..400usize {
        let i0 = b * 1024;
        let n = i0 + m + tail;
        let x0 = i0 * num / den;
        let h0 = x0 >> l;
        let i_last = i0 + m - 1;
        let h_last = h0 + span - (m - 1);
        let x_last = (h_last << l) | (rng.below(1u64 << l) as usize);
        let x_end = x_last + tail * if distinct { 1 } else { rng.below(2) as usize };
        let u = x_end + 1;
        let lw = if u / n == 0 { 0 } else { 63 - ((u / n) as u64).leading_zeros() as usize };
        if lw != l { continue; }
        if distinct && x0 + (m - 1) >= x_last { continue; }
        found += 1;
        if found <= skip { continue; }
        let mut xs: Vec<usize> = (0..i0).map(|i| i * num / den).collect();
        for j in 0..(m - 1) { xs.push(if distinct { x0 + j } else { x0 }); }
        xs.push(x_last);
        let step = if tail == 0 { 0 } else { (x_end - x_last) / tail };
        for t in 1..=tail { xs.push(x_last + t * step); }
        debug_assert_eq!(xs.len(), n);
        let mut hot = vec![0, i0.wrapping_sub(1), i0, i0 + 1, i_last.wrapping_sub(1), i_last, i_last + 1, n - 1, n, i0 - 1024, i0 - 32];
        let mut j = 0;
        while j < m + tail { hot.push(i0 + j); hot.push(i0 + j + 1); hot.push((i0 + j).wrapping_sub(1)); j += 32; }
        for _ in 0..6 { hot.push(rng.below(n as u64) as usize); }
        hot.sort_unstable();
        hot.dedup();
        out.stat("ef:edge-span-block");
        return Some((l, xs, hot));
    }
    None
}

fn kind_ef_large(rng: &mut Rng, out: &mut Out, id: &str, tier: &str, force_edge: bool, sid: u64) {
    // a 1024-block of the high bits spanning >= 65536 positions needs >= ~33k elements and one huge gap
    // (ones), or > 64512 duplicates in one bucket (zeros)
    out.case(id);
    let dup = !force_edge && tier == "thorough" && rng.chance(1, 4);
    let edge = if !dup && (force_edge || rng.chance(2, 3)) { gen_ef_edge(rng, false, out, sid) } else { None };
    let mut n = if dup { rng.range(134_000, 140_000) } else { rng.range(33_000, 40_000) } as usize;
    let mut u = if dup { 2 * n + rng.below(1000) as usize } else { 16 * n + rng.below(1000) as usize };
    let mut xs: Vec<usize> = Vec::with_capacity(n);
    let mut hot: Vec<usize> = vec![];
    if let Some((_, e_xs, e_hot)) = edge {
        n = e_xs.len();
        u = e_xs[n - 1] + 1;
        xs = e_xs;
        hot = e_hot;
    } else if dup {
        let half = n / 2 + rng.below(100) as usize;
        for _ in 0..half { xs.push(1000); }
        let mut v = 1002;
        while xs.len() < n { xs.push(v); v += rng.range(0, 3) as usize; if v >= u { v = u - 1; } }
    } else {
        xs.push(0);
        for i in 1..n { xs.push(u - n + i); }
    }
    let mut b = EliasFanoBuilder::new(u, n).unwrap();
    out.op(1005, &[u, n], "K".into(), "EliasFanoBuilder::new (large)");
    out.data(&xs);
    let r = r_unit(|| b.extend(xs.iter().cloned()));
    out.op(51, &[], r, "extend");
    let with_rank = true;
    let ef = match guard(move || b.build().enable_rank()) {
        None => { out.op(52, &[with_rank as usize], "P".into(), "build"); out.end(); return; }
        Some(ef) => ef,
    };
    out.op(52, &[with_rank as usize], "K".into(), "build");
    out.stat("ef:large-sparse-block");
    let r = if (tier == "thorough" || tier == "deep") { 40 } else { 14 };
    out.op(10, &[], r_num(|| ef.len()), "len");
    for &k in &hot {
        out.op(61, &[k], r_optnum(|| ef.select(k)), "select");
        out.op(62, &[k], r_optnum(|| ef.delta(k)), "delta");
    }
    for i in 0..(r + hot.len().min(24)) {
        let k = if i < r { rng.below(n as u64) as usize } else { hot[(i - r) * hot.len() / hot.len().min(24)].min(n - 1) };
        out.op(61, &[k], r_optnum(|| ef.select(k)), "select");
        out.op(62, &[k], r_optnum(|| ef.delta(k)), "delta");
        let p = xs[k];
        for &q in &[p, p.wrapping_add(1), p.wrapping_sub(1), rng.below(u as u64) as usize] {
            out.op(63, &[q], r_optnum(|| ef.rank(q)), "rank");
            out.op(64, &[q], r_optnum(|| ef.predecessor(q)), "predecessor");
            out.op(65, &[q], r_optnum(|| ef.successor(q)), "successor");
            out.op(66, &[q], r_optnum(|| ef.binsearch(q)), "binsearch");
        }
    }
    out.op(98, &[], r_num(|| ef.size_in_bytes()), "size_in_bytes");
    out.end();
}

fn kind_efb(rng: &mut Rng, out: &mut Out, id: &str, tier: &str) {
    if rng.chance(1, if (tier == "thorough" || tier == "deep") { 12 } else { 40 }) { return kind_ef_large(rng, out, id, tier, false, 6); }
    out.case(id);
    let m = match rng.below(12) {
        0 => 0,
        1 => 1,
        2 => rng.range(60, 70),
        3 => rng.range(120, 140),
        4 | 5 => rng.range(200, if (tier == "thorough" || tier == "deep") { 5000 } else { 1500 }),
        _ => rng.range(1, 100),
    } as usize;
    let u = if m == 0 { rng.range(0, 100) as usize } else { gen_universe(rng, m) };
    let b = guard(|| EliasFanoBuilder::new(u, m));
    let mut b = match b {
        None => { out.op(1005, &[u, m], "P".into(), "EliasFanoBuilder::new"); out.end(); return; }
        Some(Err(_)) => { out.op(1005, &[u, m], "E".into(), "EliasFanoBuilder::new"); out.end(); return; }
        Some(Ok(b)) => { out.op(1005, &[u, m], "K".into(), "EliasFanoBuilder::new"); b }
    };
    // history: mostly valid non-decreasing pushes, with rejected ones mixed in
    let fill = match rng.below(6) { 0 => 0, 1 => m / 2, _ => m };   // partial fill allowed
    let mut acc: Vec<usize> = vec![];
    let mut last = 0usize;
    let step_hi = ((u / (m.max(1))).max(1) as u64).saturating_mul(2);
    let mut budget = fill + 20;
    while acc.len() < fill && budget > 0 {
        budget -= 1;
        let c = rng.below(100);
        if c < 72 {
            let v = if rng.chance(1, 6) { last } else { last.wrapping_add(rng.below(step_hi) as usize) };
            let r = r_unit(|| b.push(v));
            if r == "K" { acc.push(v); last = v; }
            out.op(50, &[v], r, "push");
        } else if c < 80 {
            // decreasing / too large / garbage
            let v = match rng.below(4) { 0 => last.wrapping_sub(1), 1 => u, 2 => u.wrapping_add(rng.below(5) as usize), _ => rng.next() as usize };
            let r = r_unit(|| b.push(v));
            if r == "K" { acc.push(v); last = v; }
            out.op(50, &[v], r, "push (likely rejected)");
        } else {
            let k = rng.range(0, 12) as usize;
            let mut vs = vec![];
            let mut l = last;
            for i in 0..k {
                let v = if rng.chance(1, 15) && i > 0 { l.wrapping_sub(1) } else { l.wrapping_add(rng.below(step_hi) as usize) };
                vs.push(v);
                if v >= l { l = v; }
            }
            out.data(&vs);
            let before = acc.len();
            let r = guard(AssertUnwindSafe(|| {
                // replicate to learn which items were accepted: push one by one on a scratch copy is not possible
                // (builder is not Clone), so track acceptance by the documented rule
                b.extend(vs.iter().cloned())
            }));
            let res = match r { None => "P".to_string(), Some(Ok(())) => "K".into(), Some(Err(_)) => "E".into() };
            // acceptance bookkeeping (documented rule); the driver recomputes it independently
            for &v in &vs {
                if v >= last && v < u && acc.len() < m { acc.push(v); last = v; } else { break; }
            }
            let _ = before;
            out.op(51, &[], res, "extend");
        }
    }
    if rng.chance(1, 4) {
        // over-capacity / after-rejection pushes
        for _ in 0..3 {
            let v = last.wrapping_add(rng.below(3) as usize);
            let r = r_unit(|| b.push(v));
            if r == "K" { acc.push(v); last = v; }
            out.op(50, &[v], r, "push (tail)");
        }
    }
    let with_rank = rng.chance(3, 4);
    let ef = guard(AssertUnwindSafe(|| { let e = b.build(); if with_rank { let e = e.enable_rank(); if aux_below(3) == 0 { e.enable_rank() } else { e } } else { e } }));
    let ef = match ef {
        None => { out.op(52, &[with_rank as usize], "P".into(), "build"); out.end(); return; }
        Some(e) => { out.op(52, &[with_rank as usize], "K".into(), "build"); e }
    };
    if acc.is_empty() { out.stat("ef:empty"); }
    if acc.len() > 64 { out.stat("ef:binsearch-bisect"); }
    if u < m { out.stat("ef:u<m"); }
    ef_queries(&ef, &acc, u, rng, out, tier, with_rank);
    ser_ops(&ef, rng, out, tier);
    out.end();
}

fn kind_ef_from_bits(rng: &mut Rng, out: &mut Out, id: &str, tier: &str) {
    let len = gen_len(rng, tier, 9000);
    let bits = gen_bits(rng, len, out);
    out.case(id);
    out.data(&words_of(&bits));
    let r = guard(|| EliasFano::from_bits(bits.iter().cloned()));
    match r {
        None => out.op(1012, &[len], "P".into(), "EliasFano::from_bits"),
        Some(Err(_)) => out.op(1012, &[len], "E".into(), "EliasFano::from_bits"),
        Some(Ok(ef)) => {
            out.op(1012, &[len], "K".into(), "EliasFano::from_bits");
            let xs: Vec<usize> = bits.iter().enumerate().filter(|(_, &b)| b).map(|(i, _)| i).collect();
            ef_queries(&ef, &xs, len, rng, out, tier, false);
        }
    }
    out.end();
}

// ------------------------------------------------------------------------------------------
// kind 6: CompactVector histories
fn kind_cv(rng: &mut Rng, out: &mut Out, id: &str, tier: &str) {
    out.case(id);
    out.op(1006, &[], "K".into(), "CompactVector::default");
    let mut cv = CompactVector::default();
    let mut started = false;
    let nops = rng.range(2, if (tier == "thorough" || tier == "deep") { 200 } else { 70 }) as usize;
    for i in 0..nops {
        let w = cv.width();
        let n = cv.len();
        let c = if !started || i == 0 { rng.below(20) } else { 20 + rng.below(80) };
        let val_for = |rng: &mut Rng, w: usize| -> usize {
            if w == 0 || w >= 64 { return rng.next() as usize; }
            match rng.below(6) {
                0 => (1usize << w) - 1,
                1 => 1usize << w,
                2 => (1usize << w) + 1,
                3 => usize::MAX,
                _ => (rng.next() as usize) & ((1usize << w) - 1),
            }
        };
        if c < 8 {
            let width = rng.pick(&[0usize, 1, 2, 3, 7, 8, 13, 31, 32, 33, 63, 64, 65, usize::MAX]);
            let width = if rng.chance(1, 2) { rng.range(1, 64) as usize } else { width };
            match guard(|| CompactVector::new(width)) {
                None => out.op(70, &[width], "P".into(), "new"),
                Some(Err(_)) => out.op(70, &[width], "E".into(), "new"),
                Some(Ok(v)) => { cv = v; started = true; out.op(70, &[width], "K".into(), "new") }
            }
        } else if c < 12 {
            let width = if rng.chance(3, 4) { rng.range(1, 64) as usize } else { rng.pick(&[0usize, 65]) };
            let capa = rng.below(100) as usize;
            match guard(|| CompactVector::with_capacity(capa, width)) {
                None => out.op(71, &[capa, width], "P".into(), "with_capacity"),
                Some(Err(_)) => out.op(71, &[capa, width], "E".into(), "with_capacity"),
                Some(Ok(v)) => { cv = v; started = true; out.op(71, &[capa, width], "K".into(), "with_capacity") }
            }
        } else if c < 16 {
            let width = if rng.chance(4, 5) { rng.range(1, 64) as usize } else { rng.pick(&[0usize, 65]) };
            let val = val_for(rng, width.min(64));
            let len = rng.below(60) as usize;
            match guard(|| CompactVector::from_int(val, len, width)) {
                None => out.op(72, &[val, len, width], "P".into(), "from_int"),
                Some(Err(_)) => out.op(72, &[val, len, width], "E".into(), "from_int"),
                Some(Ok(v)) => { cv = v; started = true; out.op(72, &[val, len, width], "K".into(), "from_int") }
            }
        } else if c < 20 {
            let len = if rng.chance(1, 6) { 0 } else { rng.range(1, 80) as usize };
            let w = rng.range(1, 64);
            let mut vals: Vec<usize> = (0..len).map(|_| if w == 64 { rng.next() as usize } else { (rng.next() & ((1u64 << w) - 1)) as usize }).collect();
            // maxima at and just below / above a power of two
            if len > 0 && rng.chance(1, 2) {
                let top = if w == 64 { usize::MAX } else { (1usize << w) - 1 };
                let i = rng.below(len as u64) as usize;
                vals[i] = match rng.below(4) { 0 => top, 1 => top - rng.below(3) as usize, 2 => (top >> 1) + 1, _ => top - (rng.below(5000) as usize).min(top) };
            }
            out.data(&vals);
            match guard(|| CompactVector::from_slice(&vals)) {
                None => out.op(73, &[], "P".into(), "from_slice"),
                Some(Err(_)) => out.op(73, &[], "E".into(), "from_slice"),
                Some(Ok(v)) => { cv = v; started = true; out.op(73, &[], "K".into(), "from_slice") }
            }
        } else if c < 55 {
            if w == 0 { continue; } // push on the width-0 default vector is out of contract (documented by constructors)
            let val = val_for(rng, w);
            let r = r_unit(|| cv.push_int(val));
            out.op(74, &[val], r, "push_int");
        } else if c < 72 {
            if w == 0 { continue; }
            let pos = pick_pos(rng, n);
            let val = val_for(rng, w);
            let r = r_unit(|| cv.set_int(pos, val));
            out.op(75, &[pos, val], r, "set_int");
        } else if c < 82 {
            if w == 0 { continue; }
            let k = rng.range(0, 12) as usize;
            let vals: Vec<usize> = (0..k).map(|_| if rng.chance(1, 12) { val_for(rng, w) } else if w >= 64 { rng.next() as usize } else { (rng.next() as usize) & ((1usize << w) - 1) }).collect();
            out.data(&vals);
            let r = r_unit(|| cv.extend(vals.iter().cloned()));
            out.op(76, &[], r, "extend");
        } else {
            let pos = pick_pos(rng, n);
            out.op(78, &[pos], r_optnum(|| cv.get_int(pos)), "get_int");
        }
    }
    let n = cv.len();
    out.op(10, &[], r_num(|| cv.len()), "len");
    out.op(77, &[], r_num(|| cv.width()), "width");
    let w = cv.width();
    let mut extra = vec![];
    if w > 0 {
        extra.push(usize::MAX / w);
        extra.push((usize::MAX / w).wrapping_add(1));
        extra.push((1usize << 63) / w.next_power_of_two());
        extra.push(1usize << (64 - w.min(63)));
    }
    for &p in &boundary_args(rng, n, &extra, 8) {
        out.op(78, &[p], r_optnum(|| cv.get_int(p)), "get_int");
    }
    let all: Vec<usize> = cv.iter().take(cv.len() + 8).collect();
    out.op(79, &[], r_nums(&all), "iter");
    if w > 0 {
        let mut other = CompactVector::new(w).unwrap();
        other.extend(all.iter().cloned()).unwrap();
        out.op(25, &[], format!("b:{}", (other == cv) as u8), "eq rebuilt");
    }
    {
        let mut it = cv.iter();
        out.op(40, &[], "K".into(), "iter()");
        let mut after = 0;
        let mut steps = 0;
        while after < 3 && steps < all.len() + 12 {
            steps += 1;
            if rng.chance(1, 3) {
                match guard(AssertUnwindSafe(|| it.size_hint())) {
                    None => { out.op(42, &[], "P".into(), "size_hint"); break; }
                    Some((lo, hi)) => out.op(42, &[], r_nums(&[lo, hi.unwrap_or(usize::MAX)]), "size_hint"),
                }
            }
            let x = it.next();
            out.op(41, &[], match x { None => "-".into(), Some(q) => format!("n:{:x}", q) }, "next");
            if x.is_none() { after += 1; }
        }
        hint_op(&it, out);
        if all.len() <= 2000 {
            iter_provided(Some(cv.iter()), &|q: usize| format!("n:{:x}", q), (40, vec![]), 41, all.len(), rng, out);
        }
    }
    ser_ops(&cv, rng, out, tier);
    out.end();
}

// ------------------------------------------------------------------------------------------
// integer sequences: draw the bit-length histogram first, then the values
fn gen_vals(rng: &mut Rng, n: usize, out: &mut Out) -> Vec<usize> {
    let class = { let c = rng.below(16); if c >= 11 { if c % 2 == 0 { 8 } else { 9 } } else { c } };
    out.stat(&format!("vals:class{}", class));
    if class == 8 {
        // bulk at one bit length (often above 32) plus a few longer outliers
        let l1 = if rng.chance(2, 3) { rng.range(33, 62) } else { rng.range(2, 40) };
        let l2 = rng.range(l1 + 1, 64);
        let bulk = |rng: &mut Rng, l: u64| -> usize {
            let dense = if l == 64 { rng.next() | (1 << 63) } else { (rng.next() & ((1u64 << l) - 1)) | (1u64 << (l - 1)) };
            (if rng.chance(1, 4) { (1u64 << (l - 1)) | rng.below(4) } else { dense }) as usize };
        let outliers = rng.range(1, 5) as usize;
        let mut v: Vec<usize> = (0..n).map(|i| if i < outliers { bulk(rng, l2) } else { bulk(rng, l1) }).collect();
        if n > 1 { let j = rng.below(n as u64) as usize; v.swap(0, j); }
        return v;
    }
    if class == 9 {
        // steeply geometric histogram: counts shrink by a factor 4..12 per step of 1..3 bits
        let factor = rng.range(4, 12) as f64;
        let steps = rng.range(2, 14) as usize;
        let mut lens = vec![1u64];
        for _ in 1..steps { let l = lens[lens.len() - 1] + rng.range(1, 3); if l <= 64 { lens.push(l); } }
        let total: f64 = (0..lens.len()).map(|i| factor.powi(-(i as i32))).sum();
        let mut v = vec![];
        for (i, &l) in lens.iter().enumerate() {
            let cnt = if i + 1 == lens.len() { 1.max(((n as f64) * factor.powi(-(i as i32)) / total) as usize) }
                      else { ((n as f64) * factor.powi(-(i as i32)) / total).ceil() as usize };
            for _ in 0..cnt {
                if v.len() >= n { break; }
                let x = if l == 1 { rng.below(2) } else if l == 64 { rng.next() | (1 << 63) } else { (rng.next() & ((1u64 << l) - 1)) | (1u64 << (l - 1)) };
                v.push(x as usize);
            }
        }
        while v.len() < n { v.push(rng.below(2) as usize); }
        // keep the longest value in even when n is small
        if n > 0 { let l = lens[lens.len() - 1]; v[n - 1] = (if l == 1 { 1 } else if l == 64 { u64::MAX } else { (1u64 << (l - 1)) | 1 }) as usize; }
        if n > 1 { let j = rng.below(n as u64) as usize; v.swap(n - 1, j); }
        return v;
    }
    let maxbits = match class {
        0 => 1,
        1 => 64,
        _ => rng.range(1, 64),
    };
    // histogram weights over bit lengths 1..=maxbits
    let mut weights: Vec<u64> = (0..maxbits).map(|_| if rng.chance(1, 3) { 0 } else { rng.range(1, 20) }).collect();
    if class == 3 { weights.iter_mut().for_each(|w| *w = 1); }
    if class == 4 { for (i, w) in weights.iter_mut().enumerate() { *w = if i % 8 == 7 { 5 } else { 0 }; } }
    let last = weights.len() - 1;
    weights[last] = weights[last].max(1);
    let total: u64 = weights.iter().sum();
    let mut v = Vec::with_capacity(n);
    for _ in 0..n {
        let mut t = rng.below(total);
        let mut bl = 1;
        for (i, w) in weights.iter().enumerate() {
            if t < *w { bl = i + 1; break; }
            t -= *w;
        }
        let x = if bl == 1 { rng.below(2) } else if bl == 64 { rng.next() | (1 << 63) } else { (rng.next() & ((1u64 << bl) - 1)) | (1u64 << (bl - 1)) };
        // sparse bit patterns as well: a power of two, or with one or two further bits
        let x = if bl >= 2 && rng.chance(1, 4) {
            let top = 1u64 << (bl - 1);
            match rng.below(3) { 0 => top, 1 => top | (1u64 << rng.below(bl as u64 - 1)), _ => top | rng.below(16) }
        } else { x };
        v.push(x as usize);
    }
    // single-bit values at arbitrary positions (every entry of a bit-position table gets exercised over the runs)
    if n > 0 && rng.chance(1, 3) {
        for _ in 0..rng.range(1, 6) {
            let i = rng.below(n as u64) as usize;
            v[i] = (1u64 << rng.below(maxbits)) as usize;
        }
    }
    if class == 5 { v.iter_mut().for_each(|x| *x = 0); }
    if class == 6 && n > 0 { let c = v[0]; v.iter_mut().for_each(|x| *x = c); }
    v
}

// size_hint of an implementation iterator, guarded: a panic is an answer (P), not a harness error
fn hint_op<I: Iterator>(it: &I, out: &mut Out) {
    match guard(AssertUnwindSafe(|| it.size_hint())) {
        None => out.op(42, &[], "P".into(), "size_hint"),
        Some((lo, hi)) => out.op(42, &[], r_nums(&[lo, hi.unwrap_or(usize::MAX)]), "size_hint"),
    }
}

// provided methods of `Iterator` (nth / count / last) interleaved with next / size_hint on a fresh iterator; the
// dispatcher executes them with their default-method semantics on top of the model's `next` (op `nx`)
fn iter_provided<I: Iterator>(it: Option<I>, fmt: &dyn Fn(I::Item) -> String, start: (u32, Vec<usize>), nx: usize, len: usize,
                              rng: &mut Rng, out: &mut Out) {
    let mut it = match it {
        None => { out.op(start.0, &start.1, "P".into(), "iter (provided methods)"); return; }
        Some(it) => { out.op(start.0, &start.1, "K".into(), "iter (provided methods)"); it }
    };
    let mut after = 0;
    let budget = rng.pick(&[0usize, 1, 3, 8, 40]);
    let mut steps = 0;
    while after < 2 && steps < budget {
        steps += 1;
        match rng.below(8) {
            0 | 1 if nx == 41 => {
                match guard(AssertUnwindSafe(|| it.size_hint())) {
                    None => { out.op(42, &[], "P".into(), "size_hint"); return; }
                    Some((lo, hi)) => out.op(42, &[], r_nums(&[lo, hi.unwrap_or(usize::MAX)]), "size_hint"),
                }
            }
            2 | 3 | 4 => {
                let n = match rng.below(8) {
                    0 => 0, 1 => 1, 2 => len, 3 => len + 1, 4 => usize::MAX, 5 => rng.below(len as u64 + 2) as usize,
                    _ => rng.below(5) as usize,
                };
                match guard(AssertUnwindSafe(|| it.nth(n))) {
                    None => { out.op(43, &[n, nx], "P".into(), "nth"); return; }
                    Some(None) => { out.op(43, &[n, nx], "-".into(), "nth"); after += 1; }
                    Some(Some(x)) => out.op(43, &[n, nx], fmt(x), "nth"),
                }
            }
            _ => {
                match guard(AssertUnwindSafe(|| it.next())) {
                    None => { out.op(nx as u32, &[], "P".into(), "next"); return; }
                    Some(None) => { out.op(nx as u32, &[], "-".into(), "next"); after += 1; }
                    Some(Some(x)) => out.op(nx as u32, &[], fmt(x), "next"),
                }
            }
        }
    }
    if nx == 41 {
        match guard(AssertUnwindSafe(|| it.size_hint())) {
            None => { out.op(42, &[], "P".into(), "size_hint"); return; }
            Some((lo, hi)) => out.op(42, &[], r_nums(&[lo, hi.unwrap_or(usize::MAX)]), "size_hint"),
        }
    }
    if rng.chance(1, 2) {
        let r = guard(AssertUnwindSafe(move || it.take(len + 8).count()));
        out.op(46, &[nx], match r { None => "P".into(), Some(c) => format!("n:{:x}", c) }, "count");
    } else {
        let r = guard(AssertUnwindSafe(move || it.take(len + 8).last()));
        out.op(47, &[nx], match r { None => "P".into(), Some(None) => "-".into(), Some(Some(x)) => fmt(x) }, "last");
    }
}

fn iter_ops<I: Iterator<Item = usize>>(mut it: I, rng: &mut Rng, out: &mut Out, cap: usize) {
    out.op(40, &[], "K".into(), "iter()");
    let mut after = 0;
    let mut cnt = 0;
    while after < 3 && cnt < cap {
        if rng.chance(1, 4) {
            hint_op(&it, out);
        }
        let x = guard(AssertUnwindSafe(|| it.next()));
        match x {
            None => { out.op(41, &[], "P".into(), "next"); return; }
            Some(x) => {
                out.op(41, &[], match x { None => "-".into(), Some(q) => format!("n:{:x}", q) }, "next");
                if x.is_none() { after += 1; }
            }
        }
        cnt += 1;
    }
    hint_op(&it, out);
}

fn gen_n(rng: &mut Rng, tier: &str, big: usize) -> usize {
    match rng.below(10) {
        0 => 0,
        1 => 1,
        2 | 3 => rng.range(2, 70) as usize,
        4 | 5 | 6 => rng.range(70, 1200) as usize,
        _ => rng.range(1200, if (tier == "thorough" || tier == "deep") { big as u64 } else { (big / 3).max(1300) as u64 }) as usize,
    }
}

fn kind_dacsopt(rng: &mut Rng, out: &mut Out, id: &str, tier: &str) {
    let mut n = gen_n(rng, tier, 5000);
    let mut vals = gen_vals(rng, n, out);
    let (mut has_ml, mut ml) = match rng.below(10) {
        0 | 4 | 5 => (false, 0usize),
        1 => (true, rng.pick(&[0usize, 65, 100, usize::MAX])),
        2 => (true, 1),
        3 => (true, 64),
        _ => (true, rng.range(1, 64) as usize),
    };
    if rng.chance(1, 8) {
        // one level holding wide values (a level width of 64, 63, 33, 32 bits): few wide values under a limit of one
        // level, or nothing but wide values
        out.stat("vals:single-level-wide");
        let w = rng.pick(&[64u64, 64, 63, 62, 33, 32]);
        let top = 1u64 << (w - 1);
        let all_wide = rng.chance(1, 2);
        n = rng.range(1, 40) as usize;
        vals = (0..n).map(|i| if i == 0 || all_wide { (top | (rng.next() & (top - 1))) as usize } else { rng.below(8) as usize }).collect();
        if rng.chance(1, 3) { vals[0] = if w == 64 { usize::MAX } else { ((top << 1) - 1) as usize }; }
        if n > 1 { let j = rng.below(n as u64) as usize; vals.swap(0, j); }
        if all_wide && rng.chance(1, 2) { has_ml = false; ml = 0; } else { has_ml = true; ml = 1; }
    }
    // the level limit is validated whatever the input: the empty input with an invalid limit in particular
    if n == 0 && rng.chance(1, 2) { has_ml = true; ml = rng.pick(&[0usize, 65, 100, usize::MAX]); }
    out.case(id);
    out.data(&vals);
    let r = guard(|| DacsOpt::from_slice(&vals, if has_ml { Some(ml) } else { None }));
    let x = match r {
        None => { out.op(1007, &[has_ml as usize, ml], "P".into(), "DacsOpt::from_slice"); out.end(); return; }
        Some(Err(_)) => { out.op(1007, &[has_ml as usize, ml], "E".into(), "DacsOpt::from_slice"); out.end(); return; }
        Some(Ok(x)) => { out.op(1007, &[has_ml as usize, ml], "K".into(), "DacsOpt::from_slice"); x }
    };
    use sucds::int_vectors::Access as IA;
    out.op(10, &[], r_num(|| x.len()), "len");
    out.op(80, &[], r_num(|| x.num_levels()), "num_levels");
    out.op(81, &[], r_nums(&x.widths()), "widths");
    if x.num_levels() > 1 { out.stat("dacs:multi-level"); }
    for &p in &boundary_args(rng, n, &[], if (tier == "thorough" || tier == "deep") { 40 } else { 12 }) {
        out.op(78, &[p], r_optnum(|| x.access(p)), "access");
    }
    if n <= 700 { iter_ops(x.iter(), rng, out, n + 5); iter_provided(Some(x.iter()), &|q: usize| format!("n:{:x}", q), (40, vec![]), 41, n, rng, out); }
    ser_ops(&x, rng, out, tier);
    out.end();
}

fn kind_dacsbyte(rng: &mut Rng, out: &mut Out, id: &str, tier: &str) {
    let n = gen_n(rng, tier, 20000);
    let vals = gen_vals(rng, n, out);
    out.case(id);
    out.data(&vals);
    let r = guard(|| DacsByte::from_slice(&vals));
    let x = match r {
        None => { out.op(1008, &[], "P".into(), "DacsByte::from_slice"); out.end(); return; }
        Some(Err(_)) => { out.op(1008, &[], "E".into(), "DacsByte::from_slice"); out.end(); return; }
        Some(Ok(x)) => { out.op(1008, &[], "K".into(), "DacsByte::from_slice"); x }
    };
    use sucds::int_vectors::Access as IA;
    out.op(10, &[], r_num(|| x.len()), "len");
    out.op(80, &[], r_num(|| x.num_levels()), "num_levels");
    out.op(81, &[], r_nums(&x.widths()), "widths");
    for &p in &boundary_args(rng, n, &[], if (tier == "thorough" || tier == "deep") { 40 } else { 12 }) {
        out.op(78, &[p], r_optnum(|| x.access(p)), "access");
    }
    if n <= 700 { iter_ops(x.iter(), rng, out, n + 5); iter_provided(Some(x.iter()), &|q: usize| format!("n:{:x}", q), (40, vec![]), 41, n, rng, out); }
    ser_ops(&x, rng, out, tier);
    out.end();
}

fn kind_psef(rng: &mut Rng, out: &mut Out, id: &str, tier: &str) {
    let n = gen_n(rng, tier, 5000);
    // representable sum: cap the values
    let mut vals: Vec<usize> = match rng.below(6) {
        0 => vec![0; n],
        1 => { let mut v = vec![0usize; n]; if n > 0 { let i = rng.below(n as u64) as usize; v[i] = (usize::MAX - 1) - rng.below(3) as usize; } v }
        2 => (0..n).map(|_| rng.below(3) as usize).collect(),
        _ => { let w = rng.range(1, 50); (0..n).map(|_| (rng.next() & ((1u64 << w) - 1)) as usize).collect() }
    };
    if n == 1 && rng.chance(1, 2) {
        vals[0] = rng.pick(&[1usize << 63, (1usize << 63) - 1, (1usize << 63) + 1, usize::MAX - 1, usize::MAX - 2, 1usize << 62]);
    }
    // make sure the sum stays below usize::MAX
    let mut sum: u128 = vals.iter().map(|&x| x as u128).sum();
    while sum >= usize::MAX as u128 {
        let i = rng.below(n as u64) as usize;
        sum -= vals[i] as u128;
        vals[i] = 0;
    }
    out.case(id);
    out.data(&vals);
    let r = guard(|| PrefixSummedEliasFano::from_slice(&vals));
    let x = match r {
        None => { out.op(1009, &[], "P".into(), "Psef::from_slice"); out.end(); return; }
        Some(Err(_)) => { out.op(1009, &[], "E".into(), "Psef::from_slice"); out.end(); return; }
        Some(Ok(x)) => { out.op(1009, &[], "K".into(), "Psef::from_slice"); x }
    };
    use sucds::int_vectors::Access as IA;
    out.op(10, &[], r_num(|| x.len()), "len");
    out.op(82, &[], r_num(|| x.sum()), "sum");
    for &p in &boundary_args(rng, n, &[], if (tier == "thorough" || tier == "deep") { 40 } else { 12 }) {
        out.op(78, &[p], r_optnum(|| x.access(p)), "access");
    }
    if n <= 700 { iter_ops(x.iter(), rng, out, n + 5); iter_provided(Some(x.iter()), &|q: usize| format!("n:{:x}", q), (40, vec![]), 41, n, rng, out); }
    ser_ops(&x, rng, out, tier);
    out.end();
}

// ------------------------------------------------------------------------------------------
// kind 10: WaveletMatrix over three backings
fn wm_case<B>(backing: usize, vals: &[usize], rng: &mut Rng, out: &mut Out, id: &str, tier: &str)
where
    B: Access + Build + NumBits + Rank + Select + Serializable + PartialEq,
{
    out.case(id);
    out.data(vals);
    let r = guard(|| {
        let cv = CompactVector::from_slice(vals).unwrap();
        WaveletMatrix::<B>::new(cv)
    });
    let wm = match r {
        None => { out.op(1010, &[backing], "P".into(), "WaveletMatrix::new"); out.end(); return; }
        Some(Err(_)) => { out.op(1010, &[backing], "E".into(), "WaveletMatrix::new"); out.end(); return; }
        Some(Ok(x)) => { out.op(1010, &[backing], "K".into(), "WaveletMatrix::new"); x }
    };
    let n = vals.len();
    let r = if (tier == "thorough" || tier == "deep") { 30 } else { 10 };
    let mx = *vals.iter().max().unwrap();
    out.op(10, &[], r_num(|| wm.len()), "len");
    out.op(83, &[], r_num(|| wm.alph_size()), "alph_size");
    // query values: present, absent, just above the maximum, aliases modulo 2^width, huge
    let width = wm.alph_width();
    let mut qv = vec![0usize, 1, mx, mx.wrapping_add(1), mx.wrapping_add(2), usize::MAX, 1usize << 63];
    if width < 64 {
        qv.push(1usize << width);
        qv.push((1usize << width) | vals[0]);
        qv.push((1usize << width).wrapping_add(mx));
        qv.push(vals[n / 2] | (1usize << 63));
    }
    for _ in 0..r { qv.push(vals[rng.below(n as u64) as usize]); qv.push(rng.below((mx as u64).saturating_add(2)) as usize); }
    qv.sort_unstable();
    qv.dedup();
    let positions = boundary_args(rng, n, &[], r / 2);
    for &p in &positions {
        out.op(78, &[p], r_optnum(|| wm.access(p)), "access");
    }
    for &v in &qv {
        for &p in positions.iter().filter(|_| rng.chance(1, 2)) {
            out.op(84, &[p, v], r_optnum(|| wm.rank(p, v)), "rank");
        }
        let cnt = vals.iter().filter(|&&x| x == v).count();
        for &k in &[0usize, 1, cnt.wrapping_sub(1), cnt, cnt + 1, usize::MAX, usize::MAX - n, 1usize << 63, rng.below((cnt as u64).saturating_add(1)) as usize] {
            out.op(86, &[k, v], r_optnum(|| wm.select(k, v)), "select");
        }
    }
    // ranges: ordinary, empty, reversed, ending at n, ending beyond n
    let mut ranges: Vec<(usize, usize)> = vec![(0, n), (0, 0), (n, n), (n, 0), (n + 1, n + 1), (n + 2, n + 1), (0, n + 1), (5, 2), (usize::MAX, usize::MAX), (0, usize::MAX)];
    for _ in 0..r {
        let a = rng.below((n as u64).saturating_add(1)) as usize;
        let b = rng.range(a as u64, n as u64) as usize;
        ranges.push((a, b));
        ranges.push((pick_pos(rng, n), pick_pos(rng, n)));
    }
    for &(a, b) in &ranges {
        let v = qv[rng.below(qv.len() as u64) as usize];
        out.op(85, &[a, b, v], r_optnum(|| wm.rank_range(a..b, v)), "rank_range");
        let len = if a < b { b - a } else { 0 };
        for &k in &[0usize, len.wrapping_sub(1), len, len / 2, usize::MAX] {
            out.op(87, &[a, b, k], r_optnum(|| wm.quantile(a..b, k)), "quantile");
        }
    }
    // intersect: lists of ranges (overlapping, nested, identical, empty, reversed), thresholds 0..=len+1
    for _ in 0..r {
        let nr = rng.range(0, 6) as usize;
        let mut rs: Vec<(usize, usize)> = vec![];
        for _ in 0..nr {
            let c = rng.below(10);
            let (a, b) = if c < 6 {
                let a = rng.below((n as u64).saturating_add(1)) as usize;
                (a, rng.range(a as u64, (a + 40).min(n) as u64) as usize)
            } else if c < 7 && !rs.is_empty() { rs[rng.below(rs.len() as u64) as usize] }
            else if c < 8 { let a = rng.below((n as u64).saturating_add(1)) as usize; (a, a) }
            else if c < 9 { (rng.below((n as u64).saturating_add(1)) as usize, rng.below((n as u64).saturating_add(1)) as usize) }
            else if c < 10 && rng.chance(1, 2) { (rng.below((n as u64).saturating_add(1)) as usize, n + rng.below(3) as usize) }
            else { let e = n + 1 + rng.below(4) as usize; (e + rng.below(3) as usize, e) };   // empty / reversed AND ending beyond n
            rs.push((a, b));
        }
        let flat: Vec<usize> = rs.iter().flat_map(|&(a, b)| vec![a, b]).collect();
        let k = match rng.below(6) { 0 => nr, 1 => nr + 1, 2 => usize::MAX, _ => rng.below((nr as u64).saturating_add(1)) as usize };
        // small ranges only: the result lists every value in the intersection
        out.data(&flat);
        let ranges: Vec<std::ops::Range<usize>> = rs.iter().map(|&(a, b)| a..b).collect();
        out.op(88, &[k], r_optnums(|| wm.intersect(&ranges, k)), "intersect");
    }
    if n <= 300 { iter_ops(wm.iter(), rng, out, n + 5); iter_provided(Some(wm.iter()), &|q: usize| format!("n:{:x}", q), (40, vec![]), 41, n, rng, out); }
    ser_ops(&wm, rng, out, tier);
    out.end();
}

fn kind_wm(rng: &mut Rng, out: &mut Out, id: &str, tier: &str) {
    let n = match rng.below(8) {
        0 => 1,
        1 => rng.range(2, 10) as usize,
        2 | 3 => rng.range(10, 130) as usize,
        4 | 5 => rng.range(130, 1100) as usize,
        _ => rng.range(1100, if (tier == "thorough" || tier == "deep") { 5000 } else { 2500 }) as usize,
    };
    // alphabets: sigma = 1, 2^j, 2^j +- 1, 64-bit
    let sigma_class = rng.below(8);
    let mut n = n;
    let vals: Vec<usize> = match sigma_class {
        0 => vec![0; n],
        1 => { let j = rng.range(1, 12); (0..n).map(|_| rng.below(1 << j) as usize).collect() }
        2 => { let j = rng.range(1, 12); let mut v: Vec<usize> = (0..n).map(|_| rng.below(1 << j) as usize).collect(); v[0] = (1 << j) - 1; v }
        3 => { let j = rng.range(1, 12); let mut v: Vec<usize> = (0..n).map(|_| rng.below(1 << j) as usize).collect(); v[0] = (1 << j) - 2; v.iter_mut().for_each(|x| *x = (*x).min((1 << j) - 2)); v }
        4 => { let j = rng.range(1, 12); let mut v: Vec<usize> = (0..n).map(|_| rng.below(1 << j) as usize).collect(); v[0] = 1 << j; v }
        5 if n <= 400 => (0..n).map(|_| if rng.chance(1, 2) { rng.next() as usize & (usize::MAX >> 1) } else { rng.below(4) as usize }).collect(),
        6 if n <= 400 => { let mut v: Vec<usize> = (0..n).map(|_| rng.next() as usize).collect(); v[0] = usize::MAX - 1; v }
        5 | 6 => { let j = rng.range(30, 50); let mut v: Vec<usize> = (0..n).map(|_| rng.below(1 << j) as usize).collect(); v[0] = (1usize << j) - rng.range(0, 2) as usize; v.truncate(600); v }
        _ => (0..n).map(|_| rng.below(5) as usize).collect(),
    };
    out.stat(&format!("wm:sigma-class{}", sigma_class));
    // a constant sequence with a few outliers that differ in one bit, at word-boundary positions: the layer of that
    // bit consists of words like 1 << 63, 1, !(1 << 63)
    let vals = if rng.chance(1, 5) && n >= 2 {
        out.stat("wm:one-bit-outliers");
        let w = rng.range(1, 8);
        let c = rng.below(1 << w) as usize;
        let mut v = vec![c; n];
        for _ in 0..rng.range(1, 3) {
            let word = rng.below((n as u64 + 63) / 64) as usize;
            let p = (word * 64 + rng.pick(&[63usize, 63, 0, 31, 32, 62])).min(n - 1);
            v[p] = c ^ (1usize << rng.below(w));
        }
        v
    } else { vals };
    match rng.below(3) {
        0 => wm_case::<Rank9Sel>(0, &vals, rng, out, id, tier),
        1 => wm_case::<DArray>(1, &vals, rng, out, id, tier),
        _ => wm_case::<BitVector>(2, &vals, rng, out, id, tier),
    }
}

// ------------------------------------------------------------------------------------------
// kind 11: broadword primitives
fn kind_broadword(rng: &mut Rng, out: &mut Out, id: &str, tier: &str) {
    out.case(id);
    out.op(1011, &[], "K".into(), "broadword");
    let n = if (tier == "thorough" || tier == "deep") { 3000 } else { 700 };
    for i in 0..n {
        let x: usize = match i % 10 {
            0 => 1usize << rng.below(64),
            1 => (0xFFusize) << (8 * rng.below(8)),
            2 => (1usize << rng.below(64)).wrapping_add(rng.range(0, 2) as usize).wrapping_sub(1),
            3 => !(1usize << rng.below(64)),
            4 => rng.pick(&[0usize, usize::MAX, 1, 1 << 63, 0x8080808080808080, 0x0101010101010101, 0x7F7F7F7F7F7F7F7F, 0xAAAAAAAAAAAAAAAA, 0x5555555555555555]),
            5 => (rng.next() & rng.next() & rng.next()) as usize,
            6 => (rng.next() | rng.next() | rng.next()) as usize,
            7 => (rng.next() as usize) << rng.below(64),
            8 => (rng.next() as usize) >> rng.below(64),
            _ => rng.next() as usize,
        };
        out.op(90, &[x], r_num(|| sucds::broadword::popcount(x)), "popcount");
        out.op(91, &[x], r_optnum(|| sucds::broadword::lsb(x)), "lsb");
        out.op(92, &[x], r_optnum(|| sucds::broadword::msb(x)), "msb");
        let pc = x.count_ones() as usize;
        // k beyond the popcount must give None whatever its byte lanes look like: sweeps of 0..=65 and 64..=320,
        // powers of two and their neighbours, values whose low byte alone would be a valid rank
        let ks: Vec<usize> = if i % 7 == 0 { (0..=65).collect() } else if i % 7 == 3 { (64..=320).collect() } else {
            let j = rng.below(64);
            let lowb = rng.below(pc as u64 + 1) as usize;
            vec![0, pc.wrapping_sub(1), pc, pc + 1, rng.below(65) as usize, 64, 65, 255, 256, usize::MAX, 1usize << 56, (1usize << 56) + 1,
                 rng.below(512) as usize, 1usize << j, (1usize << j).wrapping_sub(1), (1usize << j) + 1,
                 (rng.range(1, 1 << 20) as usize) << 8 | lowb, 0x80 | lowb, 0x100 | lowb, (rng.next() as usize) & !0xFF | lowb]
        };
        for &k in &ks {
            out.op(89, &[x, k], r_optnum(|| sucds::broadword::select_in_word(x, k)), "select_in_word");
        }
    }
    out.end();
}

// kinds 15, 16, 17: EXHAUSTIVE small scope — every bit string of length 0..=MAXL, every index configuration,
// every argument 0..=len+1 plus two huge ones (Rank9Sel / DArray / SArray).  One shard enumerates everything
// (the seed is ignored); cases are ordinary cases of kinds 2, 3, 4 for the driver.
fn kind_exhaustive_bits(which: u32, out: &mut Out, tier: &str) {
    let maxl: usize = if tier == "thorough" { 12 } else { 9 };
    let mut cnt = 0usize;
    for len in 0..=maxl {
        for pat in 0..(1usize << len) {
            let bits: Vec<bool> = (0..len).map(|i| (pat >> i) & 1 == 1).collect();
            let ones = bits.iter().filter(|&&b| b).count();
            let mut args: Vec<usize> = (0..=len + 1).collect();
            args.push(1usize << 63);
            args.push(usize::MAX);
            for cfg in 0..4usize {
                let (f1, f2) = (cfg & 1 == 1, cfg & 2 == 2);
                if which == 17 && f2 { continue; }
                cnt += 1;
                out.case(&format!("x{}l{}p{}c{}", which, len, pat, cfg));
                out.data(&words_of(&bits));
                match which {
                    15 => {
                        let mut x = Rank9Sel::from_bits(bits.iter().cloned());
                        if f1 { x = x.select1_hints(); }
                        if f2 { x = x.select0_hints(); }
                        out.op(1002, &[len, f1 as usize, f2 as usize], "K".into(), "Rank9Sel (exhaustive)");
                        out.op(10, &[], r_num(|| x.num_bits()), "num_bits");
                        out.op(22, &[], r_num(|| x.num_ones()), "num_ones");
                        out.op(23, &[], r_num(|| x.num_zeros()), "num_zeros");
                        for &a in &args {
                            out.op(11, &[a], r_optbool(|| x.access(a)), "access");
                            out.op(14, &[a], r_optnum(|| x.rank1(a)), "rank1");
                            out.op(15, &[a], r_optnum(|| x.rank0(a)), "rank0");
                            out.op(16, &[a], r_optnum(|| x.select1(a)), "select1");
                            out.op(17, &[a], r_optnum(|| x.select0(a)), "select0");
                        }
                        out.op(98, &[], r_num(|| x.size_in_bytes()), "size_in_bytes");
                    }
                    16 => {
                        let mut x = DArray::from_bits(bits.iter().cloned());
                        if f1 { x = x.enable_rank(); }
                        if f2 { x = x.enable_select0(); }
                        out.op(1003, &[len, f1 as usize, f2 as usize], "K".into(), "DArray (exhaustive)");
                        out.op(22, &[], r_num(|| x.num_ones()), "num_ones");
                        for &a in &args {
                            out.op(11, &[a], r_optbool(|| x.access(a)), "access");
                            out.op(16, &[a], r_optnum(|| x.select1(a)), "select1");
                            if f2 { out.op(17, &[a], r_optnum(|| x.select0(a)), "select0"); }
                            if f1 {
                                out.op(14, &[a], r_optnum(|| x.rank1(a)), "rank1");
                                out.op(15, &[a], r_optnum(|| x.rank0(a)), "rank0");
                            }
                        }
                        out.op(98, &[], r_num(|| x.size_in_bytes()), "size_in_bytes");
                    }
                    _ => {
                        let mut x = SArray::from_bits(bits.iter().cloned());
                        if f1 { x = x.enable_rank(); }
                        out.op(1004, &[len, f1 as usize], "K".into(), "SArray (exhaustive)");
                        out.op(22, &[], r_num(|| x.num_ones()), "num_ones");
                        for &a in &args {
                            out.op(11, &[a], r_optbool(|| x.access(a)), "access");
                            out.op(16, &[a], r_optnum(|| x.select1(a)), "select1");
                            if f1 {
                                out.op(14, &[a], r_optnum(|| x.rank1(a)), "rank1");
                                out.op(15, &[a], r_optnum(|| x.rank0(a)), "rank0");
                                out.op(18, &[a], r_optnum(|| x.predecessor1(a)), "predecessor1");
                                out.op(20, &[a], r_optnum(|| x.successor1(a)), "successor1");
                            }
                        }
                        out.op(98, &[], r_num(|| x.size_in_bytes()), "size_in_bytes");
                    }
                }
                let _ = ones;
                out.end();
            }
        }
    }
    *out.stats.entry(format!("exhaustive:kind{}-cases", which)).or_insert(0) += cnt as u64;
}

// kind 18: EXHAUSTIVE small scope for EliasFanoBuilder — every (u, m) with u <= 4, 1 <= m <= 3 and every push sequence
// of length <= 3 over the values 0..=u+1, followed by build and a full read-back
fn kind_exhaustive_efb(out: &mut Out) {
    let mut cnt = 0u64;
    for u in 0..=4usize {
        for m in 0..=3usize {
            let vals: Vec<usize> = (0..=u + 1).collect();
            let nv = vals.len();
            for l in 0..=3usize {
                let total = nv.pow(l as u32);
                for code in 0..total {
                    let mut seq = vec![];
                    let mut c = code;
                    for _ in 0..l { seq.push(vals[c % nv]); c /= nv; }
                    cnt += 1;
                    out.case(&format!("x18u{}m{}l{}s{}", u, m, l, code));
                    let b = EliasFanoBuilder::new(u, m);
                    let mut b = match b {
                        Err(_) => { out.op(1005, &[u, m], "E".into(), "EliasFanoBuilder::new"); out.end(); continue; }
                        Ok(b) => { out.op(1005, &[u, m], "K".into(), "EliasFanoBuilder::new"); b }
                    };
                    for &v in &seq {
                        let r = r_unit(|| b.push(v));
                        out.op(50, &[v], r, "push");
                    }
                    let ef = guard(AssertUnwindSafe(|| b.build().enable_rank()));
                    match ef {
                        None => { out.op(52, &[1], "P".into(), "build"); }
                        Some(ef) => {
                            out.op(52, &[1], "K".into(), "build");
                            out.op(10, &[], r_num(|| ef.len()), "len");
                            out.op(60, &[], r_num(|| ef.universe()), "universe");
                            for k in 0..=4usize {
                                out.op(61, &[k], r_optnum(|| ef.select(k)), "select");
                                out.op(62, &[k], r_optnum(|| ef.delta(k)), "delta");
                            }
                            if ef.len() > 0 {
                                for p in 0..=u + 1 {
                                    out.op(63, &[p], r_optnum(|| ef.rank(p)), "rank");
                                    out.op(64, &[p], r_optnum(|| ef.predecessor(p)), "predecessor");
                                    out.op(65, &[p], r_optnum(|| ef.successor(p)), "successor");
                                    out.op(66, &[p], r_optnum(|| ef.binsearch(p)), "binsearch");
                                }
                            }
                        }
                    }
                    out.end();
                }
            }
        }
    }
    *out.stats.entry("exhaustive:kind18-cases".to_string()).or_insert(0) += cnt;
}

// kind 19: EXHAUSTIVE small scope for the wavelet matrix — every sequence of length 1..=L over {0..3} (thorough: length
// <= 6 over {0..4}), three backings, every position / range / value / k in a small box plus huge arguments
fn wm_exh_case<B>(backing: usize, vals: &[usize], out: &mut Out, id: &str)
where B: Access + Build + NumBits + Rank + Select + Serializable + PartialEq {
    out.case(id);
    out.data(vals);
    let wm = match guard(|| WaveletMatrix::<B>::new(CompactVector::from_slice(vals).unwrap())) {
        Some(Ok(w)) => { out.op(1010, &[backing], "K".into(), "WaveletMatrix::new (exhaustive)"); w }
        Some(Err(_)) => { out.op(1010, &[backing], "E".into(), "WaveletMatrix::new (exhaustive)"); out.end(); return; }
        None => { out.op(1010, &[backing], "P".into(), "WaveletMatrix::new (exhaustive)"); out.end(); return; }
    };
    let n = vals.len();
    out.op(10, &[], r_num(|| wm.len()), "len");
    out.op(83, &[], r_num(|| wm.alph_size()), "alph_size");
    let mut pos: Vec<usize> = (0..=n + 1).collect();
    pos.push(usize::MAX);
    let mx = *vals.iter().max().unwrap();
    let mut qv: Vec<usize> = (0..=mx + 2).collect();
    qv.extend_from_slice(&[4, 7, 8, usize::MAX]);
    qv.sort_unstable(); qv.dedup();
    for &p in &pos { out.op(78, &[p], r_optnum(|| wm.access(p)), "access"); }
    for &v in &qv {
        for &p in &pos { out.op(84, &[p, v], r_optnum(|| wm.rank(p, v)), "rank"); }
        for k in 0..=n + 1 { out.op(86, &[k, v], r_optnum(|| wm.select(k, v)), "select"); }
        out.op(86, &[usize::MAX, v], r_optnum(|| wm.select(usize::MAX, v)), "select");
    }
    for a in 0..=n + 1 {
        for b in 0..=n + 1 {
            out.op(85, &[a, b, vals[0]], r_optnum(|| wm.rank_range(a..b, vals[0])), "rank_range");
            for k in 0..=n { out.op(87, &[a, b, k], r_optnum(|| wm.quantile(a..b, k)), "quantile"); }
        }
    }
    // intersect: all pairs of ranges from a small family, thresholds 0..=2
    let fam: Vec<(usize, usize)> = vec![(0, n), (0, 1), (n / 2, n), (1, 1), (n, n + 1), (2, 1)];
    for (i, &r1) in fam.iter().enumerate() {
        for &r2 in &fam[i..] {
            for k in 0..=2usize {
                out.data(&[r1.0, r1.1, r2.0, r2.1]);
                let rs = vec![r1.0..r1.1, r2.0..r2.1];
                out.op(88, &[k], r_optnums(|| wm.intersect(&rs, k)), "intersect");
            }
        }
    }
    out.end();
}
fn kind_exhaustive_wm(out: &mut Out, tier: &str) {
    let (maxl, sigma) = if tier == "thorough" { (5usize, 4usize) } else { (4usize, 3usize) };
    let mut cnt = 0u64;
    for l in 1..=maxl {
        for code in 0..sigma.pow(l as u32) {
            let mut vals = vec![];
            let mut c = code;
            for _ in 0..l { vals.push(c % sigma); c /= sigma; }
            for backing in 0..3usize {
                cnt += 1;
                let id = format!("x19l{}s{}b{}", l, code, backing);
                match backing {
                    0 => wm_exh_case::<Rank9Sel>(0, &vals, out, &id),
                    1 => wm_exh_case::<DArray>(1, &vals, out, &id),
                    _ => wm_exh_case::<BitVector>(2, &vals, out, &id),
                }
            }
        }
    }
    *out.stats.entry("exhaustive:kind19-cases".to_string()).or_insert(0) += cnt;
}

// kind 21: EXHAUSTIVE small scope for BitVector histories — every sequence of <= D operations from a boundary operand set,
// from several start vectors, followed by a full read-back
fn kind_exhaustive_bvhist(out: &mut Out, tier: &str) {
    let depth = if tier == "thorough" { 3 } else { 2 };
    // operation menu: (code, args)
    let mut menu: Vec<(u32, Vec<usize>)> = vec![(3, vec![0]), (3, vec![1])];
    for &len in &[0usize, 1, 63, 64, 65] { for &bits in &[0usize, usize::MAX, 0b101] { menu.push((4, vec![bits, len])); } }
    for &pos in &[0usize, 63, 64, 69, 70, usize::MAX] { menu.push((5, vec![pos, 1])); menu.push((5, vec![pos, 0])); }
    for &pos in &[0usize, 60, 64, usize::MAX] { for &len in &[1usize, 8, 64, 65] { for &bits in &[0usize, usize::MAX] { menu.push((6, vec![pos, bits, len])); } } }
    let starts: Vec<(bool, usize)> = vec![(false, 0), (true, 60), (false, 64), (true, 70), (false, 128)];
    let mut cnt = 0u64;
    let m = menu.len();
    for (si, &(sb, sl)) in starts.iter().enumerate() {
        for d in 0..=depth {
            for code in 0..m.pow(d as u32) {
                cnt += 1;
                out.case(&format!("x21s{}d{}c{}", si, d, code));
                out.op(1001, &[], "K".into(), "BitVector::new");
                let mut bv = BitVector::from_bit(sb, sl);
                out.op(1, &[sb as usize, sl], "K".into(), "from_bit");
                let mut c = code;
                for _ in 0..d {
                    let (op, ref a) = menu[c % m];
                    c /= m;
                    match op {
                        3 => { bv.push_bit(a[0] != 0); out.op(3, a, "K".into(), "push_bit"); }
                        4 => { let r = r_unit(|| bv.push_bits(a[0], a[1])); out.op(4, a, r, "push_bits"); }
                        5 => { let r = r_unit(|| bv.set_bit(a[0], a[1] != 0)); out.op(5, a, r, "set_bit"); }
                        _ => { let r = r_unit(|| bv.set_bits(a[0], a[1], a[2])); out.op(6, a, r, "set_bits"); }
                    }
                }
                let n = bv.len();
                out.op(10, &[], r_num(|| bv.len()), "len");
                out.op(22, &[], r_num(|| bv.num_ones()), "num_ones");
                let v: Vec<usize> = bv.iter().take(n + 8).map(|b| b as usize).collect();
                out.op(24, &[], r_nums(&v), "iter");
                let rebuilt = BitVector::from_bits(bv.iter().take(n + 8));
                out.op(25, &[], format!("b:{}", (rebuilt == bv) as u8), "eq rebuilt");
                for &p in &[0usize, 59, 63, 64, n.wrapping_sub(1), n, usize::MAX] {
                    out.op(12, &[p, 8], r_optnum(|| bv.get_bits(p, 8)), "get_bits");
                    out.op(13, &[p], r_optnum(|| bv.get_word64(p)), "get_word64");
                    out.op(14, &[p], r_optnum(|| bv.rank1(p)), "rank1");
                    out.op(19, &[p], r_optnum(|| bv.predecessor0(p)), "predecessor0");
                    out.op(20, &[p], r_optnum(|| bv.successor1(p)), "successor1");
                }
                out.op(99, &[], {
                    let mut bytes = vec![]; let _ = bv.serialize_into(&mut bytes);
                    let mut s = String::from("x:"); for b in &bytes { write!(s, "{:02x}", b).unwrap(); } s }, "serialize_into bytes");
                out.end();
            }
        }
    }
    *out.stats.entry("exhaustive:kind21-cases".to_string()).or_insert(0) += cnt;
}

// kind 22: EXHAUSTIVE small scope for CompactVector histories — widths {1, 3, 64}, every sequence of <= D operations from a
// boundary operand set, followed by a full read-back
fn kind_exhaustive_cvhist(out: &mut Out, tier: &str) {
    let depth = if tier == "thorough" { 4 } else { 3 };
    let mut cnt = 0u64;
    for &w in &[1usize, 3, 64] {
        let top = if w == 64 { usize::MAX } else { (1usize << w) - 1 };
        let over = if w == 64 { usize::MAX } else { 1usize << w };
        let menu: Vec<(u32, Vec<usize>)> = vec![
            (74, vec![0]), (74, vec![top]), (74, vec![over]),
            (75, vec![0, top]), (75, vec![1, 0]), (75, vec![0, over]), (75, vec![usize::MAX, 0]), (75, vec![2, 1]),
            (76, vec![top, 0]), (76, vec![1, over, 1]),
        ];
        let m = menu.len();
        for d in 0..=depth {
            for code in 0..m.pow(d as u32) {
                cnt += 1;
                out.case(&format!("x22w{}d{}c{}", w, d, code));
                out.op(1006, &[], "K".into(), "CompactVector::default");
                let mut cv = CompactVector::new(w).unwrap();
                out.op(70, &[w], "K".into(), "new");
                let mut c = code;
                for _ in 0..d {
                    let (op, ref a) = menu[c % m];
                    c /= m;
                    match op {
                        74 => { let r = r_unit(|| cv.push_int(a[0])); out.op(74, a, r, "push_int"); }
                        75 => { let r = r_unit(|| cv.set_int(a[0], a[1])); out.op(75, a, r, "set_int"); }
                        _ => { out.data(a); let r = r_unit(|| cv.extend(a.iter().cloned())); out.op(76, &[], r, "extend"); }
                    }
                }
                let n = cv.len();
                out.op(10, &[], r_num(|| cv.len()), "len");
                for &p in &[0usize, 1, n.wrapping_sub(1), n, usize::MAX, (usize::MAX / w.max(1)).wrapping_add(1)] {
                    out.op(78, &[p], r_optnum(|| cv.get_int(p)), "get_int");
                }
                let all: Vec<usize> = cv.iter().take(cv.len() + 8).collect();
                out.op(79, &[], r_nums(&all), "iter");
                let mut other = CompactVector::new(w).unwrap();
                other.extend(all.iter().cloned()).unwrap();
                out.op(25, &[], format!("b:{}", (other == cv) as u8), "eq rebuilt");
                out.end();
            }
        }
    }
    *out.stats.entry("exhaustive:kind22-cases".to_string()).or_insert(0) += cnt;
}

// kind 14: primitive / Option / Vec wrappers (C08, C13): checked against a reference encoder written here
// (little-endian fixed width; Option = 1 tag byte + payload; Vec = 8-byte length + elements)
trait RefEnc { fn enc(&self, out: &mut Vec<u8>); }
macro_rules! refenc_prim { ($($t:ty),*) => { $(impl RefEnc for $t { fn enc(&self, out: &mut Vec<u8>) { out.extend_from_slice(&self.to_le_bytes()); } })* } }
refenc_prim!(u8, u16, u32, u64, usize, i8, i16, i32, i64, isize);
impl RefEnc for bool { fn enc(&self, out: &mut Vec<u8>) { out.push(*self as u8); } }
impl<T: RefEnc> RefEnc for Option<T> { fn enc(&self, out: &mut Vec<u8>) { match self { Some(x) => { out.push(1); x.enc(out) } None => out.push(0) } } }
impl<T: RefEnc> RefEnc for Vec<T> { fn enc(&self, out: &mut Vec<u8>) { out.extend_from_slice(&(self.len() as u64).to_le_bytes()); for x in self { x.enc(out); } } }

fn wrap_check<T: Serializable + RefEnc + PartialEq>(x: &T, tag: usize, rng: &mut Rng, out: &mut Out) {
    let mut expect = vec![];
    x.enc(&mut expect);
    let ok = guard(|| {
        let mut bytes = vec![];
        let n = match x.serialize_into(&mut bytes) { Ok(n) => n, Err(_) => return false };
        if bytes != expect || n != bytes.len() || x.size_in_bytes() != bytes.len() { return false; }
        // round trip with junk, reader position
        let mut with_junk = bytes.clone();
        with_junk.extend_from_slice(&[9, 9]);
        let mut rd: &[u8] = &with_junk;
        match T::deserialize_from(&mut rd) { Ok(v) => if !(v == *x && rd.len() == 2) { return false; }, Err(_) => return false }
        // every strict prefix fails, every too-small budget fails
        for k in 0..bytes.len() {
            if T::deserialize_from(&bytes[..k]).is_ok() { return false; }
            let mut w = LimitedWriter { budget: k, written: vec![] };
            if x.serialize_into(&mut w).is_ok() { return false; }
        }
        true
    });
    let _ = rng;
    out.op(94, &[tag], match ok { None => "P".into(), Some(b) => format!("b:{}", b as u8) }, "wrapper check");
}

fn kind_wrappers(rng: &mut Rng, out: &mut Out, id: &str, _tier: &str) {
    out.case(id);
    out.op(1014, &[], "K".into(), "wrappers");
    for _ in 0..6 {
        let r = rng.next();
        wrap_check(&(r as u8), 1, rng, out); wrap_check(&(r as u16), 2, rng, out); wrap_check(&(r as u32), 3, rng, out);
        wrap_check(&(r as u64), 4, rng, out); wrap_check(&(r as usize), 5, rng, out); wrap_check(&(r as i8), 6, rng, out);
        wrap_check(&(r as i16), 7, rng, out); wrap_check(&(r as i32), 8, rng, out); wrap_check(&(r as i64), 9, rng, out);
        wrap_check(&(r as isize), 10, rng, out); wrap_check(&(r & 1 == 1), 11, rng, out);
        wrap_check(&(if r & 2 == 0 { None } else { Some(r as u32) }), 12, rng, out);
        wrap_check(&(if r & 4 == 0 { None } else { Some(r as i64) }), 13, rng, out);
        let n = rng.below(40) as usize;
        wrap_check(&(0..n).map(|_| rng.next() as u32).collect::<Vec<u32>>(), 14, rng, out);
        wrap_check(&(0..n).map(|_| rng.next() as i16).collect::<Vec<i16>>(), 15, rng, out);
        wrap_check(&(0..n).map(|_| rng.chance(1, 2)).collect::<Vec<bool>>(), 16, rng, out);
        wrap_check(&(0..n % 7).map(|_| { let m = rng.below(6) as usize; if rng.chance(1, 3) { None } else { Some((0..m).map(|_| rng.next() as u16).collect::<Vec<u16>>()) } }).collect::<Vec<Option<Vec<u16>>>>(), 17, rng, out);
        wrap_check(&Some((0..n % 5).map(|_| (0..rng.below(4)).map(|_| rng.next() as u8).collect::<Vec<u8>>()).collect::<Vec<Vec<u8>>>()), 18, rng, out);
        wrap_check(&Vec::<u64>::new(), 19, rng, out);
        wrap_check(&Option::<Option<bool>>::Some(None), 20, rng, out);
    }
    out.end();
}

// kind 13: a structure whose Vec has more than 65536 (and more than 2^16 + a few) elements: serialization
// round trip and a few truncations / budgets only (no spec list is kept for it)
fn kind_bigvec(rng: &mut Rng, out: &mut Out, id: &str, _tier: &str) {
    out.case(id);
    let bit = rng.chance(1, 2);
    let words = rng.pick(&[65_535usize, 65_536, 65_537, 65_600, 70_000]);
    let len = words * 64 - rng.below(64) as usize;
    let bv = BitVector::from_bit(bit, len);
    out.op(1013, &[bit as usize, len], "K".into(), "BitVector::from_bit (large)");
    let mut bytes = vec![];
    let ret = guard(|| bv.serialize_into(&mut bytes));
    out.op(98, &[], r_num(|| bv.size_in_bytes()), "size_in_bytes");
    out.op(96, &[usize::MAX], match &ret { Some(Ok(n)) => format!("n:{:x}", n), Some(Err(_)) => "E".into(), None => "P".into() },
           "serialize_into return value");
    let size = bytes.len();
    {
        let mut with_junk = bytes.clone();
        with_junk.extend_from_slice(&[1, 2, 3]);
        let r = guard(|| {
            let mut rd: &[u8] = &with_junk;
            match BitVector::deserialize_from(&mut rd) {
                Ok(v) => v == bv && rd.len() == 3,
                Err(_) => false,
            }
        });
        out.op(95, &[], match r { None => "P".into(), Some(b) => format!("b:{}", b as u8) }, "round trip + junk");
    }
    for &n in &[0usize, 7, 8, 9, size / 2, 8 + 8 * 65536, 8 + 8 * 65536 + 1, size - 9, size - 8, size - 1] {
        if n < size {
            let r = guard(|| BitVector::deserialize_from(&bytes[..n]).is_ok());
            out.op(97, &[n], match r { None => "P".into(), Some(true) => "K".into(), Some(false) => "E".into() }, "deserialize prefix");
        }
    }
    for &b in &[0usize, 8, size / 2, size - 1, size] {
        let r = guard(|| { let mut w = LimitedWriter { budget: b, written: vec![] }; bv.serialize_into(&mut w).ok() });
        out.op(96, &[b], match r { None => "P".into(), Some(None) => "E".into(), Some(Some(n)) => format!("n:{:x}", n) }, "write budget");
    }
    // the same for a Rank9Sel over it (block_rank_pairs > 16384 entries, hints) and reads across the 2^16-th word
    let r9 = Rank9Sel::new(bv.clone()).select1_hints();
    for &p in &[64 * 65_535usize, 64 * 65_535 + 63, 64 * 65_536 - 1, len - 1, len] {
        if p <= len {
            out.op(14, &[p], r_optnum(|| r9.rank1(p)), "rank1 (large)");
            out.op(11, &[p], r_optbool(|| bv.get_bit(p)), "get_bit (large)");
        }
    }
    let mut b2 = vec![];
    let ok = guard(|| r9.serialize_into(&mut b2)).is_some();
    let r = guard(|| match Rank9Sel::deserialize_from(&b2[..]) { Ok(v) => v == r9, Err(_) => false });
    out.op(94, &[], match (ok, r) { (true, Some(b)) => format!("b:{}", b as u8), _ => "P".into() }, "Rank9Sel round trip (large)");
    out.end();
}

// msb sweeps: the width / level / low-width computations go through `needed_bits` / `msb` of the maximum (or of
// universe / n); one tiny instance per position of the top bit (the two shards of a build share the 64 positions)
fn sweep_msb(kind: u32, out: &mut Out, id: &str, sid: u64) {
    use sucds::int_vectors::Access as IA;
    for b in 0..64usize {
        if (b as u64) % 2 != sid % 2 { continue; }
        let top = 1usize << b;
      for fam in 0..2usize {
        // family 0: maximum 2^b + 2^(b-1); family 1: maximum 2^(b+1) - 1 (the value below a power of two)
        let allones = top | (top - 1);
        let vals: Vec<usize> = if fam == 0 { vec![3.min(top), top | (top >> 1), 0, top] } else { vec![1.min(top), allones, 0, allones >> 1] };
        let cid = format!("{}m{}f{}", id, b, fam);
        if fam == 1 && kind == 5 { continue; }
        match kind {
            6 => {
                out.case(&cid);
                out.op(1006, &[], "K".into(), "CompactVector::default");
                out.data(&vals);
                match guard(|| CompactVector::from_slice(&vals)) {
                    None => out.op(73, &[], "P".into(), "from_slice"),
                    Some(Err(_)) => out.op(73, &[], "E".into(), "from_slice"),
                    Some(Ok(cv)) => {
                        out.op(73, &[], "K".into(), "from_slice");
                        out.op(77, &[], r_num(|| cv.width()), "width");
                        out.op(10, &[], r_num(|| cv.len()), "len");
                        for p in 0..5usize { out.op(78, &[p], r_optnum(|| cv.get_int(p)), "get_int"); }
                    }
                }
                out.end();
            }
            7 => {
                for &ml in &[0usize, 1, 2] {
                    out.case(&format!("{}l{}", cid, ml));
                    out.data(&vals);
                    let has_ml = ml > 0;
                    match guard(|| DacsOpt::from_slice(&vals, if has_ml { Some(ml) } else { None })) {
                        None => out.op(1007, &[has_ml as usize, ml], "P".into(), "DacsOpt::from_slice"),
                        Some(Err(_)) => out.op(1007, &[has_ml as usize, ml], "E".into(), "DacsOpt::from_slice"),
                        Some(Ok(x)) => {
                            out.op(1007, &[has_ml as usize, ml], "K".into(), "DacsOpt::from_slice");
                            out.op(10, &[], r_num(|| x.len()), "len");
                            out.op(80, &[], r_num(|| x.num_levels()), "num_levels");
                            out.op(81, &[], r_nums(&x.widths()), "widths");
                            for p in 0..5usize { out.op(78, &[p], r_optnum(|| x.access(p)), "access"); }
                        }
                    }
                    out.end();
                }
            }
            8 => {
                out.case(&cid);
                out.data(&vals);
                match guard(|| DacsByte::from_slice(&vals)) {
                    None => out.op(1008, &[], "P".into(), "DacsByte::from_slice"),
                    Some(Err(_)) => out.op(1008, &[], "E".into(), "DacsByte::from_slice"),
                    Some(Ok(x)) => {
                        out.op(1008, &[], "K".into(), "DacsByte::from_slice");
                        out.op(10, &[], r_num(|| x.len()), "len");
                        out.op(80, &[], r_num(|| x.num_levels()), "num_levels");
                        out.op(81, &[], r_nums(&x.widths()), "widths");
                        for p in 0..5usize { out.op(78, &[p], r_optnum(|| x.access(p)), "access"); }
                    }
                }
                out.end();
            }
            5 => {
                // low width = msb(universe / n): universe = 2^b * n (+ n - 1), n = 3
                for &extra in &[0usize, 2] {
                    let n = 3usize;
                    let u = match top.checked_mul(n) { Some(x) => x + extra, None => continue };
                    out.case(&format!("{}e{}", cid, extra));
                    let b0 = guard(|| EliasFanoBuilder::new(u, n));
                    let mut bld = match b0 {
                        None => { out.op(1005, &[u, n], "P".into(), "EliasFanoBuilder::new"); out.end(); continue; }
                        Some(Err(_)) => { out.op(1005, &[u, n], "E".into(), "EliasFanoBuilder::new"); out.end(); continue; }
                        Some(Ok(x)) => { out.op(1005, &[u, n], "K".into(), "EliasFanoBuilder::new"); x }
                    };
                    let xs = [top - 1, top, u - 1];
                    for &v in &xs {
                        let r = r_unit(|| bld.push(v));
                        out.op(50, &[v], r, "push");
                    }
                    match guard(AssertUnwindSafe(|| bld.build().enable_rank())) {
                        None => out.op(52, &[1], "P".into(), "build"),
                        Some(ef) => {
                            out.op(52, &[1], "K".into(), "build");
                            out.op(10, &[], r_num(|| ef.len()), "len");
                            out.op(60, &[], r_num(|| ef.universe()), "universe");
                            for k in 0..4usize {
                                out.op(61, &[k], r_optnum(|| ef.select(k)), "select");
                                out.op(62, &[k], r_optnum(|| ef.delta(k)), "delta");
                            }
                            for &q in &[0usize, top - 1, top, top + 1, u - 1, u] {
                                out.op(63, &[q], r_optnum(|| ef.rank(q)), "rank");
                                out.op(64, &[q], r_optnum(|| ef.predecessor(q)), "predecessor");
                                out.op(65, &[q], r_optnum(|| ef.successor(q)), "successor");
                            }
                        }
                    }
                    out.end();
                }
            }
            _ => {}
        }
      }
    }
    out.stat("sweep:msb-positions");
}

// kind 28 (thorough tier only: the list-based model needs 2-4 minutes to build one): a wavelet matrix over DArray with more than 65536 elements in which one bit
// value is rare on some layer, so that the select index of that layer holds a sparse block (overflow positions)
fn kind_wm_sparse(rng: &mut Rng, out: &mut Out, id: &str, sid: u64) {
    let n = rng.range(66_000, 68_000) as usize;
    let w = 1 + (sid % 2) as usize;
    let common: usize = if sid % 4 < 2 { 0 } else { (1 << w) - 1 };
    let bit = if w == 2 && sid % 8 >= 4 { 0 } else { w - 1 };        // the layer on which the rare value differs
    let rare = common ^ (1usize << bit);
    let cnt_r = rng.pick(&[2usize, 3, 40, 1030]);
    let mut vals = vec![common; n];
    let mut rp: Vec<usize> = vec![rng.below(100) as usize, n - 1 - rng.below(100) as usize];
    while rp.len() < cnt_r { rp.push(rng.below(n as u64) as usize); }
    for &p in &rp { vals[p] = rare; }
    rp.sort_unstable();
    rp.dedup();
    out.case(id);
    out.data(&vals);
    let r = guard(|| {
        let cv = CompactVector::from_slice(&vals).unwrap();
        WaveletMatrix::<DArray>::new(cv)
    });
    let wm = match r {
        None => { out.op(1010, &[1], "P".into(), "WaveletMatrix::new"); out.end(); return; }
        Some(Err(_)) => { out.op(1010, &[1], "E".into(), "WaveletMatrix::new"); out.end(); return; }
        Some(Ok(x)) => { out.op(1010, &[1], "K".into(), "WaveletMatrix::new (sparse layer)"); x }
    };
    out.stat("wm:sparse-layer");
    out.op(10, &[], r_num(|| wm.len()), "len");
    out.op(83, &[], r_num(|| wm.alph_size()), "alph_size");
    let cr = rp.len();
    let cc = n - cr;
    let mut ks: Vec<usize> = (0..cr.min(36) + 2).collect();
    ks.extend_from_slice(&[cr.wrapping_sub(1), cr, 1023, 1024, 1025]);
    ks.sort_unstable();
    ks.dedup();
    for &k in &ks { out.op(86, &[k, rare], r_optnum(|| wm.select(k, rare)), "select"); }
    for &k in &[0usize, 1, 31, 32, 1023, 1024, 1025, 2048, cc / 2, cc - 1, cc, cc + 1] {
        out.op(86, &[k, common], r_optnum(|| wm.select(k, common)), "select");
    }
    for &p in rp.iter().take(6) {
        out.op(78, &[p], r_optnum(|| wm.access(p)), "access");
        out.op(84, &[p + 1, rare], r_optnum(|| wm.rank(p + 1, rare)), "rank");
        out.op(84, &[p, common], r_optnum(|| wm.rank(p, common)), "rank");
    }
    out.op(98, &[], r_num(|| wm.size_in_bytes()), "size_in_bytes");
    out.end();
}

// steep bit-length histograms over a small range (counts shrink by a factor r per bit): the optimum uses several
// 1-bit levels, more than half of the maximum's bit length
fn sweep_steep(out: &mut Out, id: &str, sid: u64) {
    use sucds::int_vectors::Access as IA;
    let mut combo = 0u64;
    for &(w, r) in &[(4usize, 10usize), (4, 3), (5, 6), (6, 4), (8, 3), (8, 2), (3, 12), (12, 2)] {
        for &mlc in &[0usize, 1, 2] {
            combo += 1;
            if combo % 2 != sid % 2 { continue; }
            let mut vals: Vec<usize> = vec![];
            let mut cnt = 1usize;
            for len in (1..=w).rev() {
                // `cnt` values of bit length `len` (the longest are the fewest)
                for j in 0..cnt { vals.push(if len == 1 { j % 2 } else { (1usize << (len - 1)) | (j % (1usize << (len - 1))) }); }
                cnt = (cnt * r).min(2500);
            }
            let (has_ml, ml) = match mlc { 0 => (false, 0), 1 => (true, w), _ => (true, (w + 1) / 2 + 1) };
            out.case(&format!("{}w{}r{}l{}", id, w, r, mlc));
            out.data(&vals);
            match guard(|| DacsOpt::from_slice(&vals, if has_ml { Some(ml) } else { None })) {
                None => out.op(1007, &[has_ml as usize, ml], "P".into(), "DacsOpt::from_slice"),
                Some(Err(_)) => out.op(1007, &[has_ml as usize, ml], "E".into(), "DacsOpt::from_slice"),
                Some(Ok(x)) => {
                    out.op(1007, &[has_ml as usize, ml], "K".into(), "DacsOpt::from_slice (steep histogram)");
                    out.op(10, &[], r_num(|| x.len()), "len");
                    out.op(80, &[], r_num(|| x.num_levels()), "num_levels");
                    out.op(81, &[], r_nums(&x.widths()), "widths");
                    let n = vals.len();
                    for &p in &[0usize, 1, n / 2, n - 1, n] { out.op(78, &[p], r_optnum(|| x.access(p)), "access"); }
                }
            }
            out.end();
        }
    }
    out.stat("sweep:steep-histograms");
}

// word- and block-aligned lengths x simple patterns for Rank9Sel / DArray / SArray with every index enabled:
// the last word is full, the last block is full, nothing follows the last one / zero
fn sweep_aligned(kind: u32, out: &mut Out, id: &str, sid: u64) {
    let mut combo = 0u64;
    for &len in &[64usize, 128, 192, 512, 576, 1024] {
        for pat in 0..7usize {
            combo += 1;
            if combo % 2 != sid % 2 { continue; }
            // 5 / 6: a single one (zero) early in the last word of an otherwise empty (full) vector
            let bits: Vec<bool> = (0..len).map(|i| match pat {
                0 => false, 1 => true, 2 => i % 2 == 0, 3 => i < len - 64, 4 => i >= len - 64 || i % 7 == 0,
                5 => i == len - 52, _ => i != len - 52 }).collect();
            let ones = bits.iter().filter(|&&b| b).count();
            if kind == 4 && ones == 0 { continue; }
            out.case(&format!("{}a{}p{}", id, len, pat));
            out.data(&words_of(&bits));
            macro_rules! queries { ($x:expr, $sel0:expr) => {{
                let x = $x;
                out.op(10, &[], r_num(|| x.num_bits()), "num_bits");
                out.op(22, &[], r_num(|| x.num_ones()), "num_ones");
                for &p in &[0usize, 63, 64, len.wrapping_sub(65), len - 64, len - 1, len, len + 1] {
                    out.op(11, &[p], r_optbool(|| x.access(p)), "access");
                    out.op(14, &[p], r_optnum(|| x.rank1(p)), "rank1");
                    out.op(15, &[p], r_optnum(|| x.rank0(p)), "rank0");
                }
                let zeros = len - ones;
                for &k in &[0usize, 1, 63, 64, ones.wrapping_sub(2), ones.wrapping_sub(1), ones, ones + 1] {
                    out.op(16, &[k], r_optnum(|| x.select1(k)), "select1");
                }
                if $sel0 {
                    for &k in &[0usize, 1, 63, 64, zeros.wrapping_sub(2), zeros.wrapping_sub(1), zeros, zeros + 1] {
                        out.op(17, &[k], r_optnum(|| x.select0(k)), "select0");
                    }
                }
            }}; }
            match kind {
                2 => match guard(|| Rank9Sel::from_bits(bits.iter().cloned()).select1_hints().select0_hints()) {
                    None => out.op(1002, &[len, 1, 1], "P".into(), "Rank9Sel construction panicked"),
                    Some(x) => { out.op(1002, &[len, 1, 1], "K".into(), "Rank9Sel (aligned length)"); queries!(&x, true); }
                },
                3 => match guard(|| DArray::from_bits(bits.iter().cloned()).enable_rank().enable_select0()) {
                    None => out.op(1003, &[len, 1, 1], "P".into(), "DArray construction panicked"),
                    Some(x) => { out.op(1003, &[len, 1, 1], "K".into(), "DArray (aligned length)"); queries!(&x, true); }
                },
                _ => match guard(|| SArray::from_bits(bits.iter().cloned()).enable_rank()) {
                    None => out.op(1004, &[len, 1], "P".into(), "SArray construction panicked"),
                    Some(x) => { out.op(1004, &[len, 1], "K".into(), "SArray (aligned length)"); queries!(&x, false); }
                },
            }
            out.end();
        }
    }
    out.stat("sweep:aligned-lengths");
}

// empty CompactVectors through every construction path (default and from_slice(&[]) have width 0): full read-back
// and iteration, every call guarded and capped
fn sweep_cv_empty(out: &mut Out, id: &str) {
    let mut own = Rng(0x5EED_C0DE);
    let rng = &mut own;
    for variant in 0..5usize {
        out.case(&format!("{}e{}", id, variant));
        out.op(1006, &[], "K".into(), "CompactVector::default");
        let made: Option<CompactVector> = match variant {
            0 => Some(CompactVector::default()),
            1 => { out.data(&[]); match guard(|| CompactVector::from_slice::<usize>(&[])) {
                     Some(Ok(v)) => { out.op(73, &[], "K".into(), "from_slice"); Some(v) }
                     Some(Err(_)) => { out.op(73, &[], "E".into(), "from_slice"); None }
                     None => { out.op(73, &[], "P".into(), "from_slice"); None } } }
            2 | 3 => { let w = if variant == 2 { 1 } else { 64 }; match guard(|| CompactVector::new(w)) {
                     Some(Ok(v)) => { out.op(70, &[w], "K".into(), "new"); Some(v) }
                     Some(Err(_)) => { out.op(70, &[w], "E".into(), "new"); None }
                     None => { out.op(70, &[w], "P".into(), "new"); None } } }
            _ => match guard(|| CompactVector::with_capacity(0, 3)) {
                     Some(Ok(v)) => { out.op(71, &[0, 3], "K".into(), "with_capacity"); Some(v) }
                     Some(Err(_)) => { out.op(71, &[0, 3], "E".into(), "with_capacity"); None }
                     None => { out.op(71, &[0, 3], "P".into(), "with_capacity"); None } },
        };
        if let Some(cv) = made {
            out.op(10, &[], r_num(|| cv.len()), "len");
            out.op(77, &[], r_num(|| cv.width()), "width");
            for p in 0..2usize { out.op(78, &[p], r_optnum(|| cv.get_int(p)), "get_int"); }
            let all: Option<Vec<usize>> = guard(|| cv.iter().take(8).collect());
            out.op(79, &[], match &all { None => "P".into(), Some(v) => r_nums(v) }, "iter");
            let mut it = cv.iter();
            out.op(40, &[], "K".into(), "iter()");
            for step in 0..4 {
                if step != 1 {
                    match guard(AssertUnwindSafe(|| it.size_hint())) {
                        None => { out.op(42, &[], "P".into(), "size_hint"); break; }
                        Some((lo, hi)) => out.op(42, &[], r_nums(&[lo, hi.unwrap_or(usize::MAX)]), "size_hint"),
                    }
                }
                match guard(AssertUnwindSafe(|| it.next())) {
                    None => { out.op(41, &[], "P".into(), "next"); break; }
                    Some(x) => out.op(41, &[], match x { None => "-".into(), Some(q) => format!("n:{:x}", q) }, "next"),
                }
            }
            iter_provided(Some(cv.iter()), &|q: usize| format!("n:{:x}", q), (40, vec![]), 41, 0, rng, out);
        }
        out.end();
    }
    out.stat("sweep:empty-compact-vectors");
}

// wavelet matrices whose layers consist of the words 1 << 63, !(1 << 63), 1, !1: a constant sequence of 130 symbols
// with one outlier at position 63 or 64, every backing
fn sweep_wm_words(out: &mut Out, id: &str, tier: &str, sid: u64) {
    let mut own = Rng(0x5EED_0A7E);
    let mut combo = 0u64;
    for &(c, o) in &[(1usize, 2usize), (0, 1), (2, 1), (3, 2), (1, 0)] {
        for &p in &[63usize, 64] {
            for backing in 0..3usize {
                combo += 1;
                if combo % 2 != sid % 2 { continue; }
                let mut vals = vec![c; 130];
                vals[p] = o;
                let cid = format!("{}w{}o{}p{}b{}", id, c, o, p, backing);
                match backing {
                    0 => wm_case::<Rank9Sel>(0, &vals, &mut own, out, &cid, tier),
                    1 => wm_case::<DArray>(1, &vals, &mut own, out, &cid, tier),
                    _ => wm_case::<BitVector>(2, &vals, &mut own, out, &cid, tier),
                }
            }
        }
    }
    out.stat("sweep:wm-boundary-words");
}

// SArray over long vectors with one tight cluster of set bits (many elements in one Elias-Fano bucket: the first
// bucket, a middle one, the last one): rank / predecessor / successor before, inside and after the cluster
fn sweep_sarray_clusters(out: &mut Out, id: &str) {
    for &(len, start, size) in &[(4096usize, 100usize, 17usize), (4096, 0, 24), (8192, 3000, 40), (4096, 4096 - 20, 20), (65536, 70, 12)] {
        let mut bits = vec![false; len];
        for j in start..start + size { bits[j] = true; }
        out.case(&format!("{}c{}s{}z{}", id, len, start, size));
        out.data(&words_of(&bits));
        match guard(|| SArray::from_bits(bits.iter().cloned()).enable_rank()) {
            None => out.op(1004, &[len, 1], "P".into(), "SArray construction panicked"),
            Some(x) => {
                out.op(1004, &[len, 1], "K".into(), "SArray (one cluster)");
                out.op(22, &[], r_num(|| x.num_ones()), "num_ones");
                let mut ps = vec![0usize, 1, start / 2, start.wrapping_sub(1), start, start + 1, start + size / 2, start + size - 1, start + size,
                                  start + size + 1, (start + size + len) / 2, len - 1, len, len + 1];
                ps.retain(|&p| p <= len + 1);
                for &p in &ps {
                    out.op(11, &[p], r_optbool(|| x.access(p)), "access");
                    out.op(14, &[p], r_optnum(|| x.rank1(p)), "rank1");
                    out.op(15, &[p], r_optnum(|| x.rank0(p)), "rank0");
                    out.op(18, &[p], r_optnum(|| x.predecessor1(p)), "predecessor1");
                    out.op(20, &[p], r_optnum(|| x.successor1(p)), "successor1");
                }
                for &k in &[0usize, 1, size / 2, size - 1, size] { out.op(16, &[k], r_optnum(|| x.select1(k)), "select1"); }
            }
        }
        out.end();
    }
    out.stat("sweep:sarray-clusters");
}

// kind 26: DArray exact-span sweep (deep / thorough searches): lead x ones-before-the-far-one x distance x view,
// the combinations split over the shards of a run.  A block of `c` consecutive ones starting at `lead` and one
// more at distance `d` from the first: the dense / sparse decision (d < 65536), the sub-block head (c % 32 == 0),
// word alignment of the block start and of its end.
fn kind_darray_sweep(out: &mut Out, sid: u64, id_prefix: &str) {
    let mut combo = 0u64;
    for &lead in &[1usize, 63, 64] {
        for &c in &[1usize, 32, 33, 1023] {
            for &d in &[65534usize, 65535, 65536, 65537] {
                for &compl in &[false, true] {
                    combo += 1;
                    if combo % 8 != sid % 8 { continue; }
                    let mut bits = vec![false; lead];
                    bits.extend(std::iter::repeat(true).take(c));
                    while bits.len() < lead + d { bits.push(false); }
                    bits.push(true);
                    bits.extend_from_slice(&[false, true, true, false]);
                    if compl { bits.iter_mut().for_each(|x| *x = !*x); }
                    let len = bits.len();
                    out.case(&format!("{}l{}c{}d{}z{}", id_prefix, lead, c, d, compl as u8));
                    out.data(&words_of(&bits));
                    let built = guard(|| DArray::from_bits(bits.iter().cloned()).enable_select0());
                    let x = match built {
                        Some(x) => x,
                        None => { out.op(1003, &[len, 0, 1], "P".into(), "DArray construction panicked"); out.end(); continue; }
                    };
                    out.op(1003, &[len, 0, 1], "K".into(), "DArray (exact-span sweep)");
                    out.stat("da:exact-span-sweep");
                    let cnt = c + 3;
                    for &k in &[0usize, 1, c - 1, c, c + 1, c + 2, c + 3, 31, 32, 33, 1023, 1024] {
                        if k > cnt { continue; }
                        if compl { out.op(17, &[k], r_optnum(|| x.select0(k)), "select0"); }
                        else { out.op(16, &[k], r_optnum(|| x.select1(k)), "select1"); }
                    }
                    // the other view: a few probes
                    for &k in &[0usize, 1, 63, 64, 1023, 1024, 65000, len - cnt - 1, len - cnt] {
                        if compl { out.op(16, &[k], r_optnum(|| x.select1(k)), "select1"); }
                        else { out.op(17, &[k], r_optnum(|| x.select0(k)), "select0"); }
                    }
                    out.op(22, &[], r_num(|| x.num_ones()), "num_ones");
                    out.op(98, &[], r_num(|| x.size_in_bytes()), "size_in_bytes");
                    out.end();
                }
            }
        }
    }
}

// kind 24: PrefixSummedEliasFano whose prefix sums are an edge-span Elias-Fano input (see gen_ef_edge)
fn kind_psef_edge(rng: &mut Rng, out: &mut Out, id: &str, _tier: &str, sid: u64) {
    let (_, xs, hot) = match gen_ef_edge(rng, false, out, sid) { Some(t) => t, None => return };
    let n = xs.len();
    let mut vals: Vec<usize> = Vec::with_capacity(n);
    let mut prev = 0;
    for &x in &xs { vals.push(x - prev); prev = x; }
    out.case(id);
    out.data(&vals);
    let r = guard(|| PrefixSummedEliasFano::from_slice(&vals));
    let x = match r {
        None => { out.op(1009, &[], "P".into(), "Psef::from_slice"); out.end(); return; }
        Some(Err(_)) => { out.op(1009, &[], "E".into(), "Psef::from_slice"); out.end(); return; }
        Some(Ok(x)) => { out.op(1009, &[], "K".into(), "Psef::from_slice"); x }
    };
    use sucds::int_vectors::Access as IA;
    out.op(10, &[], r_num(|| x.len()), "len");
    out.op(82, &[], r_num(|| x.sum()), "sum");
    for &p in &hot {
        out.op(78, &[p], r_optnum(|| x.access(p)), "access");
    }
    out.op(98, &[], r_num(|| x.size_in_bytes()), "size_in_bytes");
    out.end();
}

// kind 25: SArray over a bit string whose set positions are an edge-span Elias-Fano input
fn kind_sarray_edge(rng: &mut Rng, out: &mut Out, id: &str, _tier: &str, sid: u64) {
    let (_, xs, hot) = match gen_ef_edge(rng, true, out, sid) { Some(t) => t, None => return };
    let n = xs.len();
    let len = xs[n - 1] + 1;
    let mut bits = vec![false; len];
    for &x in &xs { bits[x] = true; }
    let wr = true;
    out.case(id);
    out.data(&words_of(&bits));
    let built = guard(|| SArray::from_bits(bits.iter().cloned()).enable_rank());
    let x = match built {
        Some(x) => x,
        None => { out.op(1004, &[len, wr as usize], "P".into(), "SArray construction panicked"); out.end(); return; }
    };
    out.op(1004, &[len, wr as usize], "K".into(), "SArray (edge-span block)");
    out.op(10, &[], r_num(|| x.num_bits()), "num_bits");
    out.op(22, &[], r_num(|| x.num_ones()), "num_ones");
    for &k in &hot {
        out.op(16, &[k], r_optnum(|| x.select1(k)), "select1");
    }
    for (j, &k) in hot.iter().enumerate() {
        if j % 3 != 0 || k >= n { continue; }
        let p = xs[k];
        out.op(11, &[p], r_optbool(|| x.access(p)), "access");
        out.op(14, &[p + 1], r_optnum(|| x.rank1(p + 1)), "rank1");
        out.op(18, &[p], r_optnum(|| x.predecessor1(p)), "predecessor1");
        out.op(20, &[p.wrapping_sub(1)], r_optnum(|| x.successor1(p.wrapping_sub(1))), "successor1");
    }
    out.op(98, &[], r_num(|| x.size_in_bytes()), "size_in_bytes");
    out.end();
}

// ------------------------------------------------------------------------------------------
fn main() {
    // panics inside sucds (under `guard`) are results; anywhere else they are harness errors
    std::panic::set_hook(Box::new(|info| {
        if !IN_GUARD.load(std::sync::atomic::Ordering::SeqCst) {
            eprintln!("HARNESS-ERROR: {}", info);
        }
    }));
    let args: Vec<String> = std::env::args().collect();
    if args.len() < 4 {
        eprintln!("usage: harness <kinds> <seed> <tier> [cases-per-kind]");
        std::process::exit(2);
    }
    let kinds: Vec<u32> = args[1].split(',').map(|s| s.parse().unwrap()).collect();
    let seed: u64 = args[2].parse().unwrap();
    let tier = args[3].as_str();
    let cases: usize = if args.len() > 4 { args[4].parse().unwrap() } else { 10 };
    let mut out = Out { buf: String::new(), ops: 0, stats: Default::default() };
    let dbg = cfg!(debug_assertions);
    let intr = cfg!(feature = "intrinsics");
    writeln!(out.buf, "CFG {} {}", dbg as u8, intr as u8).unwrap();
    for &k in &kinds {
        if k >= 15 && k <= 22 {
            // exhaustive enumerations: run once (by the first shard of every build: seed a multiple of 100), ignore `cases`
            if seed % 100 == 0 {
                match k {
                    18 => kind_exhaustive_efb(&mut out),
                    19 => kind_exhaustive_wm(&mut out, tier),
                    21 => kind_exhaustive_bvhist(&mut out, tier),
                    22 => kind_exhaustive_cvhist(&mut out, tier),
                    20 => {}
                    _ => kind_exhaustive_bits(k, &mut out, tier),
                }
            }
            continue;
        }
        let mut rng = Rng(seed.wrapping_mul(0x9E3779B97F4A7C15).wrapping_add(k as u64 * 1_000_003));
        // ./check uses the seeds base*1000 + 100*build + i: a shard number 0..7 within one run
        let sid = ((seed / 100) % 10) * 2 + (seed % 100) % 2;
        AUX.store(seed.wrapping_mul(0xD1B54A32D192ED03).wrapping_add(k as u64 * 7_919), std::sync::atomic::Ordering::Relaxed);
        for i in 0..cases {
            let id = format!("k{}s{}c{}", k, seed, i);
            match k {
                1 => if i % 4 == 3 { kind_bitvec_big(&mut rng, &mut out, &id, tier) } else { kind_bitvec(&mut rng, &mut out, &id, tier) },
                2 => { if i == 0 { sweep_aligned(2, &mut out, &id, sid); } kind_rank9(&mut rng, &mut out, &id, tier) }
                3 => { if i == 0 { sweep_aligned(3, &mut out, &id, sid); } kind_darray(&mut rng, &mut out, &id, tier) }
                4 => { if i == 0 { sweep_aligned(4, &mut out, &id, sid); if sid % 2 == 0 { sweep_sarray_clusters(&mut out, &id); } } kind_sarray(&mut rng, &mut out, &id, tier) }
                5 => { if i == 0 { sweep_msb(5, &mut out, &id, sid); } kind_efb(&mut rng, &mut out, &id, tier) }
                6 => { if i == 0 { sweep_msb(6, &mut out, &id, sid); sweep_cv_empty(&mut out, &id); } kind_cv(&mut rng, &mut out, &id, tier) }
                7 => { if i == 0 { sweep_msb(7, &mut out, &id, sid); sweep_steep(&mut out, &id, sid); } kind_dacsopt(&mut rng, &mut out, &id, tier) }
                8 => { if i == 0 { sweep_msb(8, &mut out, &id, sid); } kind_dacsbyte(&mut rng, &mut out, &id, tier) }
                9 => kind_psef(&mut rng, &mut out, &id, tier),
                10 => { if i == 0 { sweep_wm_words(&mut out, &id, tier, sid); } kind_wm(&mut rng, &mut out, &id, tier) }
                11 => kind_broadword(&mut rng, &mut out, &id, tier),
                12 => kind_ef_from_bits(&mut rng, &mut out, &id, tier),
                13 => kind_bigvec(&mut rng, &mut out, &id, tier),
                // edge-span Elias-Fano inputs (>= 33k elements each): one case per shard
                // (the list-based model needs 5..30 s to build one: deep / thorough searches only)
                23 => if i == 0 && tier != "quick" { kind_ef_large(&mut rng, &mut out, &id, tier, true, sid) },
                24 => if i == 0 && tier != "quick" { kind_psef_edge(&mut rng, &mut out, &id, tier, sid) },
                28 => if i == 0 && tier == "thorough" && seed % 2 == 0 { kind_wm_sparse(&mut rng, &mut out, &id, sid) },
                26 => if i == 0 { kind_darray_sweep(&mut out, sid, &format!("k26s{}", seed)) },
                25 => if i == 0 && tier != "quick" { kind_sarray_edge(&mut rng, &mut out, &id, tier, sid) },
                14 => kind_wrappers(&mut rng, &mut out, &id, tier),
                _ => panic!("unknown kind"),
            }
        }
    }
    out.flush();
    let mut s = String::new();
    for (k, v) in &out.stats {
        write!(s, " {}={}", k, v).unwrap();
    }
    println!("# HSTATS ops={}{}", out.ops, s);
}
