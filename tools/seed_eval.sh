#!/bin/sh
# usage: seed_eval.sh <worktree> <mutant-dir (with patch.diff, demo.rs)> <seeded-id> <property> [more properties...]
# 1. confirms the mutant: suite passes with it, demo fails with it, demo passes without it
# 2. runs the given checks against the mutated worktree (VERIF_REPO) and records the outcome
set -u
WT="$1"; MD="$2"; ID="$3"; shift 3
ROOT="$(cd "$(dirname "$0")/.." && pwd)"
OUT="$ROOT/seeded/$ID"
mkdir -p "$OUT"
cp "$MD/patch.diff" "$OUT/patch.diff"
cp "$MD/demo.rs" "$OUT/demo.rs"
[ -f "$MD/README.md" ] && cp "$MD/README.md" "$OUT/README.md"
cd "$WT" || exit 2
git checkout -q -- src 2>/dev/null
mkdir -p tests
cp "$MD/demo.rs" tests/seed_demo.rs
export CARGO_NET_OFFLINE=true
demo_clean=$(cargo test --offline --test seed_demo 2>&1 | grep -c "test result: ok")
git apply "$MD/patch.diff" || { echo "patch does not apply"; exit 2; }
demo_mut=$(cargo test --offline --test seed_demo 2>&1 | grep -c "test result: FAILED\|panicked\|error")
demo_variant="default features, dev profile"
if [ "$demo_mut" = "0" ]; then
  # some changes show only with the `intrinsics` feature or only in release builds
  demo_mut=$(cargo test --offline --features intrinsics --test seed_demo 2>&1 | grep -c "test result: FAILED\|panicked\|error")
  demo_variant="--features intrinsics"
fi
if [ "$demo_mut" = "0" ]; then
  demo_mut=$(cargo test --offline --release --test seed_demo 2>&1 | grep -c "test result: FAILED\|panicked\|error")
  demo_variant="--release"
fi
rm -f tests/seed_demo.rs; rmdir tests 2>/dev/null
suite=$(cargo test --workspace --no-fail-fast --offline 2>&1 | grep "test result" | head -2 | tr '\n' ' ')
echo "demo passes on clean: $demo_clean ; demo fails on mutant: $demo_mut ($demo_variant) ; suite with mutant: $suite"
results=""
for P in "$@"; do
  cd "$ROOT"
  start=$(date +%s)
  out=$(VERIF_REPO="$WT" ./check "$P" --tier quick 2>&1 | grep -E "^VIOLATION|^KNOWN" | head -3)
  rc=$?
  end=$(date +%s)
  if echo "$out" | grep -q "^VIOLATION"; then verdict="caught"; else verdict="missed"; fi
  echo "check $P: $verdict ($((end-start))s) $out"
  results="$results{\"property\":\"$P\",\"verdict\":\"$verdict\",\"seconds\":$((end-start)),\"line\":\"$(echo "$out" | head -1 | sed 's/"/\\"/g')\"},"
done
cd "$WT" && git checkout -q -- src && rm -rf tests
cat > "$OUT/meta.json" <<EOM
{"id": "$ID", "worktree_commit": "$(git rev-parse --short HEAD)",
 "confirmed": {"demo_passes_on_clean": $demo_clean, "demo_fails_on_mutant": $demo_mut, "demo_build": "$demo_variant", "suite_with_mutant": "$suite"},
 "checks": [${results%,}]}
EOM
