#!/usr/bin/env python3
"""writes seeded/SUMMARY.md from seeded/*/meta.json and the first lines of each README"""
import json, os, re, glob
ROOT = os.path.dirname(os.path.dirname(os.path.abspath(__file__)))
rows = []
for d in sorted(glob.glob(os.path.join(ROOT, "seeded", "*", "meta.json"))):
    m = json.load(open(d))
    sid = m["id"]
    readme = os.path.join(os.path.dirname(d), "README.md")
    desc = ""
    if os.path.exists(readme):
        txt = open(readme).read()
        # first non-heading paragraph line
        for line in txt.splitlines():
            line = line.strip()
            if line and not line.startswith("#") and len(line) > 30:
                desc = re.sub(r"\s+", " ", line)[:220]
                break
    # complete the record seed_eval.sh writes: the property the change was written against, what it needs to
    # manifest (from the author's README), and what was run to confirm it
    changed = False
    if "property" not in m:
        m["property"] = re.search(r"C\d\d", sid).group(0)
        changed = True
    if "needs_to_manifest" not in m and os.path.exists(readme):
        lines = [l.strip() for l in open(readme).read().splitlines()]
        need = [l for l in lines if re.search(r"(?i)needed|manifest|trigger|failing input", l) and not l.startswith("#")][:3]
        m["needs_to_manifest"] = need
        changed = True
    if "ran" not in m:
        m["ran"] = ["cargo test --workspace --no-fail-fast --offline (with the change: must pass)",
                    "cargo test --offline --test seed_demo (demo.rs: fails with the change, passes without)",
                    "VERIF_REPO=<worktree with the change> ./check <property> --tier quick  (verdicts under 'checks')"]
        changed = True
    if changed:
        with open(d, "w") as f:
            json.dump(m, f, indent=1)
            f.write("\n")
    conf = m.get("confirmed", {})
    ok = conf.get("demo_passes_on_clean", 0) >= 1 and conf.get("demo_fails_on_mutant", 0) >= 1 and "80 passed" in conf.get("suite_with_mutant", "")
    checks = "; ".join("%s: %s%s (%ds)" % (c["property"], c["verdict"],
                        " [no-failing-input-found]" if "no-failing-input-found" in c.get("line", "") else "", c["seconds"])
                       for c in m.get("checks", []))
    rows.append("| %s | %s | %s | %s |" % (sid, "yes" if ok else "NO", desc.replace("|", "\\|"), checks))
with open(os.path.join(ROOT, "seeded", "SUMMARY.md"), "w") as f:
    f.write("# Seeded breaking changes and the checks that catch them\n\n"
            "Each directory holds `patch.diff`, `demo.rs` (fails with the change, passes without), the author's `README.md` and "
            "`meta.json` (what was run).  `confirmed` = suite passes with the change, demo fails with it, demo passes on the clean tree; "
            "verdicts are from `tools/seed_eval.sh` (quick tier, `VERIF_REPO=<scratch worktree>`), last evaluation.\n\n"
            "| id | confirmed | change | checks |\n|---|---|---|---|\n" + "\n".join(rows) + "\n")
print("seeded/SUMMARY.md:", len(rows), "rows")
