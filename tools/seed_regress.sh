#!/bin/sh
# Re-evaluates every seeded change with the machinery of this tree (regression of the checks themselves).
# usage: [SEED_REGRESS_FILTER=<regex on ids>] seed_regress.sh <worktree1> [<worktree2> ...]   -- one stream per scratch worktree of /repo
# Results: seeded/<id>/meta.json of THIS tree (run it from a snapshot with `vp run`, then copy the metas back).
ROOT="$(cd "$(dirname "$0")/.." && pwd)"
cd "$ROOT" || exit 2
./check setup || exit 2
N=$#
i=0
for WT in "$@"; do
  (
    j=0
    for d in "$ROOT"/seeded/*/; do
      id=$(basename "$d")
      [ -f "$d/patch.diff" ] || continue
      if [ -n "${SEED_REGRESS_FILTER:-}" ] && ! echo "$id" | grep -Eq "$SEED_REGRESS_FILTER"; then continue; fi
      if [ $((j % N)) -eq $i ]; then
        props=$(python3 -c "import json,sys; m=json.load(open('$d/meta.json')); print(' '.join(dict.fromkeys([m.get('property') or c['property'] for c in m['checks'][:1]] + [c['property'] for c in m['checks']])))")
        mkdir -p /tmp/seed_regress_in/$id && cp "$d/patch.diff" "$d/demo.rs" /tmp/seed_regress_in/$id/ && cp "$d/README.md" /tmp/seed_regress_in/$id/ 2>/dev/null
        echo "== $id ($props)"
        "$ROOT/tools/seed_eval.sh" "$WT" /tmp/seed_regress_in/$id "$id" $props 2>&1 | grep -E "^demo|^check"
        rm -rf /tmp/seed_regress_in/$id
      fi
      j=$((j+1))
    done
  ) > "$ROOT/seed_regress_$i.log" 2>&1 &
  i=$((i+1))
done
wait
python3 "$ROOT/tools/seed_summary.py"
