#!/usr/bin/env python3
"""Tie 1 (DESIGN.md section 5.1): regenerate coq/gen/*.v from the Rust sources under $VERIF_REPO.

  gen/BroadwordGen.v  all of src/broadword.rs and src/intrinsics.rs as monadic Gallina
  gen/ConstsGen.v     structural constants of the hand-modelled modules
  gen/SerialGen.v     struct layouts and the three method bodies of every `impl Serializable`
  gen/SerialImplGen.v the generic `impl Serializable` blocks (integer primitives of common_def!, bool, Option<S>, Vec<S>)
                      as Gallina over Base/SerialDict.v (tied to Spec/FormatSpec.v by Proofs/SerialImplTie.v)
  gen/MethodsGen.v    the loop-free methods of the core modules as monadic Gallina (tied to the hand models
                      by Proofs/MethodsTie.v)
  gen/LoopsGen.v      functions with loops (BitVector scans, the bit and unary iterators; Rank9SelIndex / Rank9Sel and
                      DArrayIndex / DArray builders and selects; CompactVector, EliasFanoBuilder / EliasFano and its
                      iterator, SArray, PrefixSummedEliasFano; DacsByte, DacsOpt incl. the dynamic program, and the
                      generic WaveletMatrix<B>) as monadic Gallina over the loop combinators of
                      Base/Loops.v (tied to the hand models by Proofs/LoopsTieBV.v, Proofs/LoopsTieIdx.v,
                      Proofs/LoopsTieSeq.v and Proofs/LoopsTieDW.v)
  gen/fingerprints.json  hash of the normalised token stream of every non-test Rust function

Files are rewritten only when their content changes (so `make` sees stable timestamps).
Exit status 0 = generated; 2 = source outside the supported subset (tie cannot be established).
"""
import hashlib
import json
import os
import re
import sys

sys.path.insert(0, os.path.dirname(os.path.abspath(__file__)))
import rustparse as rp
from rustparse import ParseError

W = 1 << 64


# ---------------------------------------------------------------------------------------------
# constants
# ---------------------------------------------------------------------------------------------

def const_eval(e, env):
    k = e[0]
    if k == "num":
        return e[1]
    if k == "var":
        if e[1] in env:
            return env[e[1]]
        raise ParseError("unknown constant %s" % e[1])
    if k == "path":
        if e[1] == ["usize", "MAX"]:
            return W - 1
        if e[1] == ["u16", "MAX"]:
            return 65535
        raise ParseError("unsupported path %s" % "::".join(e[1]))
    if k == "un" and e[1] == "!":
        return (W - 1) ^ const_eval(e[2], env)
    if k == "bin":
        a, b = const_eval(e[2], env), const_eval(e[3], env)
        op = e[1]
        if op == "+":
            r = a + b
        elif op == "-":
            r = a - b
        elif op == "*":
            r = a * b
        elif op == "/":
            if b == 0:
                raise ParseError("constant division by zero")
            r = a // b
        elif op == "<<":
            if b >= 64:
                raise ParseError("constant shift overflow")
            r = a << b
            if r >= W:
                r %= W  # rustc: bits shifted out are dropped (no overflow error for value bits)
        elif op == ">>":
            if b >= 64:
                raise ParseError("constant shift overflow")
            r = a >> b
        elif op == "|":
            r = a | b
        elif op == "&":
            r = a & b
        elif op == "^":
            r = a ^ b
        else:
            raise ParseError("unsupported constant operator %s" % op)
        if not (0 <= r < W):
            raise ParseError("constant expression overflows usize (rustc would reject it)")
        return r
    if k == "call" and e[1] == ("path", ["std", "mem", "size_of"]):
        raise ParseError("size_of without turbofish")
    if k == "cast":
        return const_eval(e[1], env)
    raise ParseError("unsupported constant expression %r" % (e,))


def eval_const_src(init_src, env):
    s = init_src.strip()
    # std::mem::size_of::<usize>() is 8 on the only supported target (pointer width 64)
    s = re.sub(r"std::mem::size_of::<usize>\(\)", "8", s)
    return const_eval(rp.parse_const_expr(s), env)


# ---------------------------------------------------------------------------------------------
# broadword.rs / intrinsics.rs -> monadic Gallina
# ---------------------------------------------------------------------------------------------

ARITH = {"+": "add c", "-": "sub c", "*": "mul c", "<<": "shl c", ">>": "shr c"}
BITOPS = {"&": "N.land", "|": "N.lor", "^": "N.lxor"}
CMPS = {"==": "N.eqb %s %s", "!=": "negb (N.eqb %s %s)", "<": "N.ltb %s %s", "<=": "N.leb %s %s",
        ">": "N.ltb %s %s", ">=": "N.leb %s %s"}
METHODS = {"wrapping_mul": ("wmul", 1), "wrapping_shl": ("wshl", 1),
           "count_ones": ("popcN", 0), "trailing_zeros": ("ctz64", 0), "leading_zeros": ("clz64", 0)}


class FnTranslator:
    def __init__(self, consts, tables, fns, prefix=""):
        self.consts = consts      # name -> value
        self.tables = tables      # name -> list
        self.fns = fns            # rust name -> coq name
        self.counter = 0

    def fresh(self):
        self.counter += 1
        return "t%d" % self.counter

    # returns a *pure* Coq term; effectful subterms are bound in `out` (list of lines)
    def expr(self, e, out):
        k = e[0]
        if k == "num":
            return str(e[1])
        if k == "var":
            return e[1]
        if k == "path":
            if e[1] == ["usize", "MAX"]:
                return "MASK64"
            raise ParseError("unsupported path %s" % "::".join(e[1]))
        if k == "cast":
            if e[2] != "usize":
                raise ParseError("unsupported cast to %s" % e[2])
            return self.expr(e[1], out)
        if k == "un":
            if e[1] == "!":
                return "(not64 %s)" % self.expr(e[2], out)
            raise ParseError("unsupported unary %s" % e[1])
        if k == "bin":
            op = e[1]
            a = self.expr(e[2], out)
            b = self.expr(e[3], out)
            if op in ARITH:
                t = self.fresh()
                out.append("%s <- %s %s %s ;;" % (t, ARITH[op], a, b))
                return t
            if op in BITOPS:
                return "(%s %s %s)" % (BITOPS[op], a, b)
            if op in CMPS:
                if op in (">", ">="):
                    a, b = b, a
                return "(" + CMPS[op] % (a, b) + ")"
            raise ParseError("unsupported operator %s" % op)
        if k == "mcall":
            if e[2] not in METHODS:
                raise ParseError("unsupported method .%s()" % e[2])
            name, arity = METHODS[e[2]]
            if len(e[3]) != arity:
                raise ParseError("wrong arity for .%s()" % e[2])
            args = [self.expr(e[1], out)] + [self.expr(a, out) for a in e[3]]
            return "(%s %s)" % (name, " ".join(args))
        if k == "index":
            if e[1][0] != "var" or e[1][1] not in self.tables:
                raise ParseError("indexing something that is not a constant table")
            i = self.expr(e[2], out)
            t = self.fresh()
            out.append("%s <- idx 0 %s %s ;;" % (t, e[1][1], i))
            return t
        if k == "call":
            f = e[1]
            if f == ("var", "Some"):
                return "(Some %s)" % self.expr(e[2][0], out)
            if f[0] == "var":
                name = f[1]
            elif f[0] == "path":
                name = "_".join(f[1])
            else:
                raise ParseError("unsupported callee")
            if name not in self.fns:
                raise ParseError("call to unknown function %s" % name)
            args = [self.expr(a, out) for a in e[2]]
            t = self.fresh()
            out.append("%s <- %s c %s ;;" % (t, self.fns[name], " ".join(args)))
            return t
        if k in ("block", "if", "cfgsel"):
            t = self.fresh()
            out.append("%s <- (%s) ;;" % (t, self.res_expr(e)))
            return t
        raise ParseError("unsupported expression %r" % (e,))

    def pure_or_none(self, e):
        if e == ("var", "None"):
            return "None"
        return None

    # Coq term of type `res T` for an expression in tail position
    def res_expr(self, e):
        k = e[0]
        if k == "block":
            return self.block(e[1], e[2])
        if k == "if":
            out = []
            cond = self.expr(e[1], out)
            if e[3] is None:
                raise ParseError("if without else in value position")
            return "\n".join(out + ["if %s then (%s) else (%s)" % (cond, self.res_expr(e[2]), self.res_expr(e[3]))])
        if k == "cfgsel":
            return "if intr c then (%s) else (%s)" % (self.res_expr(e[1]), self.res_expr(e[2]))
        if e == ("var", "None"):
            return "Ok None"
        out = []
        t = self.expr(e, out)
        return "\n".join(out + ["Ok %s" % t])

    def block(self, stmts, tail):
        if not stmts:
            if tail is None:
                raise ParseError("block without value")
            return self.res_expr(tail)
        s, rest = stmts[0], stmts[1:]
        k = s[0]
        if k == "let":
            out = []
            t = self.expr(s[3], out)
            return "\n".join(out + ["let %s := %s in" % (s[1], t), self.block(rest, tail)])
        if k == "assign":
            rhs = s[3] if s[2] is None else ("bin", s[2], ("var", s[1]), s[3])
            out = []
            t = self.expr(rhs, out)
            return "\n".join(out + ["let %s := %s in" % (s[1], t), self.block(rest, tail)])
        if k == "return":
            if rest or tail is not None:
                raise ParseError("code after return")
            return self.res_expr(s[1])
        if k == "expr":
            e = s[1]
            if e[0] == "macro":
                if e[1] not in ("debug_assert",):
                    raise ParseError("unsupported macro %s!" % e[1])
                out = []
                cond = self.expr(e[2][0], out)
                return "\n".join(out + ["_ <- dassert c %s ;;" % cond, self.block(rest, tail)])
            if e[0] == "if" and e[3] is None:
                # `if cond { return v; }` followed by the rest of the block
                then_stmts, then_tail = e[2][1], e[2][2]
                if then_tail is not None or len(then_stmts) != 1 or then_stmts[0][0] != "return":
                    raise ParseError("only `if c { return v; }` is supported as a statement")
                out = []
                cond = self.expr(e[1], out)
                return "\n".join(out + ["if %s then (%s) else (" % (cond, self.res_expr(then_stmts[0][1])),
                                        self.block(rest, tail), ")"])
            if e[0] == "cfgsel" and not rest and tail is None:
                return self.res_expr(e)
            raise ParseError("unsupported statement %r" % (e,))
        raise ParseError("unsupported statement kind %s" % k)


def indent(term, n=2):
    pad = " " * n
    return "\n".join(pad + line for line in term.split("\n"))


def gen_broadword(repo):
    bw = rp.strip_tests(open(os.path.join(repo, "src/broadword.rs")).read())
    it = rp.strip_tests(open(os.path.join(repo, "src/intrinsics.rs")).read())
    lines = ["(* GENERATED by tools/translate.py from src/broadword.rs and src/intrinsics.rs -- do not edit. *)",
             "From Sucds Require Import Base.Res Spec.WordSpec.", "Open Scope N_scope.", ""]
    consts, tables = {}, {}
    for name, ty, init in rp.top_level_consts(bw):
        m = re.match(r"\[\s*u8\s*;\s*(\d+)\s*\]$", ty)
        if m:
            body = init.strip()
            if not (body.startswith("[") and body.endswith("]")):
                raise ParseError("table %s is not an array literal" % name)
            vals = [int(x.replace("_", ""), 0) for x in body[1:-1].replace("\n", " ").split(",") if x.strip()]
            if len(vals) != int(m.group(1)):
                raise ParseError("table %s has %d entries, declared %s" % (name, len(vals), m.group(1)))
            if any(not (0 <= v < 256) for v in vals):
                raise ParseError("table %s has a non-u8 entry" % name)
            tables[name] = vals
        elif ty == "usize":
            consts[name] = eval_const_src(init, consts)
        else:
            raise ParseError("unsupported constant type %s for %s" % (ty, name))
    for name, v in consts.items():
        lines.append("Definition %s : N := %d." % (name, v))
    for name, vals in tables.items():
        rows = []
        for i in range(0, len(vals), 32):
            rows.append("  " + "; ".join(str(v) for v in vals[i:i + 32]))
        lines.append("Definition %s : list N := [\n%s\n]." % (name, ";\n".join(rows)))
    lines.append("")

    # functions: intrinsics first (callees before callers), then broadword in source order
    fn_names = {}
    ifns = rp.functions(it)
    bfns = rp.functions(bw)
    for name, *_ in ifns:
        fn_names["intrinsics_" + name] = "intrinsics_" + name
    for name, *_ in bfns:
        fn_names[name] = name
    items = [("intrinsics_" + n, p, r, b) for n, p, r, b, _ in ifns] + [(n, p, r, b) for n, p, r, b, _ in bfns]
    # order so that callees precede callers (source order is not dependency order in broadword.rs)
    bodies = {}
    for name, params, ret, body in items:
        tr = FnTranslator(consts, tables, fn_names)
        if ret == "usize":
            cty = "res N"
        elif ret == "Option<usize>":
            cty = "res (option N)"
        else:
            raise ParseError("unsupported return type %r of %s" % (ret, name))
        blk = rp.parse_fn_body(body)
        term = tr.block(blk[1], blk[2])
        ps = rp.param_names(params)
        deps = set(re.findall(r"<- ([A-Za-z_0-9]+) c ", term))
        bodies[name] = (deps, "Definition %s (c : cfg)%s : %s :=\n%s." % (
            name, "".join(" (%s : N)" % p for p in ps), cty, indent(term)))
    done, order = set(), []

    def visit(n, stack=()):
        if n in done:
            return
        if n in stack:
            raise ParseError("recursive function %s" % n)
        for d in sorted(bodies[n][0]):
            if d in bodies:
                visit(d, stack + (n,))
        done.add(n)
        order.append(n)
    for name, *_ in items:
        visit(name)
    for n in order:
        lines.append(bodies[n][1])
        lines.append("")
    return "\n".join(lines)


# ---------------------------------------------------------------------------------------------
# structural constants of the hand-modelled modules
# ---------------------------------------------------------------------------------------------

CONST_FILES = [
    ("bit_vector", "src/bit_vectors/bit_vector.rs"),
    ("rank9", "src/bit_vectors/rank9sel/inner.rs"),
    ("darray", "src/bit_vectors/darray/inner.rs"),
    ("elias_fano", "src/mii_sequences/elias_fano.rs"),
    ("dacs_byte", "src/int_vectors/dacs_byte.rs"),
]


def gen_consts(repo):
    lines = ["(* GENERATED by tools/translate.py: structural constants of the hand-modelled modules. *)",
             "From Coq Require Import NArith.", "Open Scope N_scope.", ""]
    for mod, path in CONST_FILES:
        src = rp.strip_tests(open(os.path.join(repo, path)).read())
        env = {}
        for name, ty, init in rp.top_level_consts(src):
            if ty != "usize":
                raise ParseError("unsupported constant type %s for %s in %s" % (ty, name, path))
            env[name] = eval_const_src(init, env)
            lines.append("Definition %s_%s : N := %d.  (* %s: %s *)" % (
                mod, name, env[name], path, " ".join(init.split())))
    return "\n".join(lines) + "\n"


# ---------------------------------------------------------------------------------------------
# Serializable impls -> format descriptions
# ---------------------------------------------------------------------------------------------

SER_FILES = [
    "src/bit_vectors/bit_vector.rs", "src/bit_vectors/rank9sel/inner.rs", "src/bit_vectors/rank9sel.rs",
    "src/bit_vectors/darray/inner.rs", "src/bit_vectors/darray.rs", "src/mii_sequences/elias_fano.rs",
    "src/bit_vectors/sarray.rs", "src/int_vectors/compact_vector.rs", "src/int_vectors/dacs_byte.rs",
    "src/int_vectors/dacs_opt.rs", "src/int_vectors/prefix_summed_elias_fano.rs",
    "src/char_sequences/wavelet_matrix.rs",
]

PRIMS = {"usize": "TU64", "isize": "TI64", "u8": "TU8", "u16": "TU16", "bool": "TBool"}


def ty_to_coq(t, generic=None):
    t = t.strip()
    if t in PRIMS:
        return PRIMS[t]
    m = re.match(r"Vec\s*<(.*)>$", t, re.S)
    if m:
        return "(TVec %s)" % ty_to_coq(m.group(1), generic)
    m = re.match(r"Option\s*<(.*)>$", t, re.S)
    if m:
        return "(TOpt %s)" % ty_to_coq(m.group(1), generic)
    if generic is not None and t == generic[0]:
        return generic[1]
    if re.match(r"[A-Z][A-Za-z0-9]*$", t):
        return "ty_" + t
    raise ParseError("unsupported field type %r" % t)


def parse_struct(src, name):
    m = re.search(r"pub struct %s\s*(<\s*(?:'[a-z_]+\s*,\s*[A-Z]|'[a-z_]+|([A-Z]))\s*>)?\s*\{" % name, src)
    if not m:
        raise ParseError("struct %s not found" % name)
    b0 = m.end() - 1
    b1 = rp.find_matching(src, b0)
    body = re.sub(r"//[^\n]*", "", src[b0 + 1:b1])
    fields = []
    for part in rp.split_top(body, ","):
        part = part.strip()
        if not part:
            continue
        fm = re.match(r"(?:pub(?:\([a-z]+\))?\s+)?([a-z_][a-z0-9_]*)\s*:\s*(.+)$", part, re.S)
        if not fm:
            raise ParseError("unsupported field declaration %r in %s" % (part, name))
        fields.append((fm.group(1), " ".join(fm.group(2).split())))
    return fields, m.group(2)


def parse_serializable_impl(src, name):
    m = re.search(r"impl\s*(<\s*[A-Z]\s*>)?\s*Serializable\s+for\s+%s\s*(<\s*[A-Z]\s*>)?\s*(where[^{]*)?\{" % name, src)
    if not m:
        raise ParseError("impl Serializable for %s not found" % name)
    b0 = m.end() - 1
    b1 = rp.find_matching(src, b0)
    body = src[b0:b1 + 1]
    fns = {n: (p, r, b) for n, p, r, b, _ in rp.functions(body)}
    for need in ("serialize_into", "deserialize_from", "size_in_bytes"):
        if need not in fns:
            raise ParseError("%s: missing %s" % (name, need))
    if "size_of" in fns:
        raise ParseError("%s overrides size_of(); the generic Vec fast path would apply" % name)
    return fns


def norm(s):
    return " ".join(s.split())


def parse_ser_body(name, body, fields):
    """sequence of field names written; every call must be `mem (+)= self.f.serialize_into(&mut writer)?;`"""
    b = norm(body)[1:-1].strip()
    order = []
    # delegating form: self.f.serialize_into(writer)
    m = re.fullmatch(r"self\.([a-z_0-9]+)\.serialize_into\(writer\)", b)
    if m:
        return [m.group(1)], True
    stmts = [s.strip() for s in b.split(";") if s.strip()]
    if not stmts or stmts[-1] != "Ok(mem)":
        raise ParseError("%s::serialize_into does not end with Ok(mem)" % name)
    first = True
    for s in stmts[:-1]:
        if s == "let mut mem = 0":
            first = False
            continue
        m = re.fullmatch(r"(let mut mem =|mem \+=) self\.([a-z_0-9]+)\.serialize_into\(&mut writer\)\?", s)
        if not m:
            raise ParseError("%s::serialize_into: unsupported statement %r" % (name, s))
        if m.group(1).startswith("let") and not first:
            raise ParseError("%s::serialize_into: mem re-initialised" % name)
        first = False
        order.append(m.group(2))
    return order, False


def parse_deser_body(name, body):
    b = norm(body)[1:-1].strip()
    stmts = [s.strip() for s in b.split(";") if s.strip()]
    reads = []
    for s in stmts[:-1]:
        m = re.fullmatch(r"let ([a-z_0-9]+) = ([A-Za-z0-9_:<> ]+?)::deserialize_from\((&mut reader|reader)\)\?", s)
        if not m:
            raise ParseError("%s::deserialize_from: unsupported statement %r" % (name, s))
        ty = m.group(2).replace("::<", "<").replace(" ", "")
        reads.append((m.group(1), ty))
    last = stmts[-1]
    m = re.fullmatch(r"Ok\(Self \{ ([a-z_0-9, ]+?),? \}\)", last)
    if not m:
        raise ParseError("%s::deserialize_from: unsupported constructor %r" % (name, last))
    ctor = [x.strip() for x in m.group(1).split(",") if x.strip()]
    return reads, ctor


def parse_size_body(name, body, fields):
    """additive terms -> list of ("field", f) | ("prim", T, k)"""
    b = norm(body)[1:-1].strip()
    terms = []
    for t in rp.split_top(b, "+"):
        t = t.strip()
        m = re.fullmatch(r"self\.([a-z_0-9]+)\.size_in_bytes\(\)", t)
        if m:
            terms.append(("field", m.group(1), 1))
            continue
        m = re.fullmatch(r"(usize|bool|u8|u16|isize)::size_of\(\)\.unwrap\(\)(?: \* (\d+))?", t)
        if m:
            terms.append(("prim", m.group(1), int(m.group(2) or 1)))
            continue
        raise ParseError("%s::size_in_bytes: unsupported term %r" % (name, t))
    return terms


STRUCTS = ["BitVector", "Rank9SelIndex", "Rank9Sel", "DArrayIndex", "DArray", "EliasFano", "SArray",
           "CompactVector", "DacsByte", "DacsOpt", "PrefixSummedEliasFano", "WaveletMatrix"]


def gen_serial(repo):
    srcs = {}
    for p in SER_FILES:
        srcs[p] = rp.strip_tests(open(os.path.join(repo, p)).read())
    where = {}
    for s in STRUCTS:
        for p, src in srcs.items():
            if re.search(r"pub struct %s\b" % s, src):
                where[s] = p
        if s not in where:
            raise ParseError("struct %s not found" % s)
    lines = ["(* GENERATED by tools/translate.py from every `impl Serializable` -- do not edit. *)",
             "From Sucds Require Import Base.Res Spec.FormatSpec.", "From Coq Require Import String.",
             "Open Scope string_scope.", ""]
    descs = []
    for s in STRUCTS:
        src = srcs[where[s]]
        fields, generic = parse_struct(src, s)
        fns = parse_serializable_impl(src, s)
        order, delegating = parse_ser_body(s, fns["serialize_into"][2], fields)
        reads, ctor = parse_deser_body(s, fns["deserialize_from"][2])
        terms = parse_size_body(s, fns["size_in_bytes"][2], fields)
        # io discipline: only `?`-propagated calls, no unwrap/index/panic in serialization paths
        for fn in ("serialize_into", "deserialize_from"):
            body = fns[fn][2]
            for bad in (".unwrap()", ".expect(", "panic!", "[", "unsafe"):
                if bad in body:
                    raise ParseError("%s::%s contains %s" % (s, fn, bad))
        insts = [(s, None)]
        if generic:
            insts = [("%s_%s" % (s, b), (generic, "ty_" + b)) for b in ("Rank9Sel", "DArray", "BitVector")]
        for iname, g in insts:
            ftys = [(f, ty_to_coq(t, g)) for f, t in fields]
            rtys = [(f, ty_to_coq(t, g)) for f, t in reads]
            lines.append("Definition ty_%s : ty := TStruct [%s]." % (iname, "; ".join(t for _, t in ftys)))
            sz = []
            for t in terms:
                if t[0] == "field":
                    sz.append('SzField "%s"' % t[1])
                else:
                    sz.append("SzPrim %s %d" % (PRIMS[t[1]], t[2]))
            lines.append("Definition impl_%s : impl_desc := {|\n  d_name := \"%s\";\n  d_fields := [%s];\n"
                         "  d_ser := [%s];\n  d_deser := [%s];\n  d_ctor := [%s];\n  d_size := [%s] |}." % (
                             iname, iname,
                             "; ".join('("%s", %s)' % ft for ft in ftys),
                             "; ".join('"%s"' % f for f in order),
                             "; ".join('("%s", %s)' % ft for ft in rtys),
                             "; ".join('"%s"' % f for f in ctor),
                             "; ".join(sz)))
            lines.append("")
            descs.append("impl_" + iname)
    lines.append("Definition all_impls : list impl_desc := [%s]." % "; ".join(descs))

    # the generic impls (Option, Vec, primitives): facts recorded as booleans checked by the theorems
    ser = norm(rp.strip_tests(open(os.path.join(repo, "src/serial.rs")).read()))
    prim = norm(rp.strip_tests(open(os.path.join(repo, "src/serial/primitive.rs")).read()))
    facts = {
        "prim_write_all_le": "writer.write_all(&self.to_le_bytes())?; Ok(std::mem::size_of::<Self>())" in prim,
        "prim_read_exact_le": "let mut buf = [0; std::mem::size_of::<Self>()]; reader.read_exact(&mut buf)?; "
                              "Ok(Self::from_le_bytes(buf))" in prim,
        "prim_size_of": "fn size_of() -> Option<usize> { Some(std::mem::size_of::<Self>()) }" in prim,
        "bool_as_u8": "(*self as u8).serialize_into(writer)" in prim
                      and "u8::deserialize_from(reader).map(|x| x != 0)" in prim,
        "option_tag_first": "if let Some(x) = self { mem += true.serialize_into(&mut writer)?; "
                            "mem += x.serialize_into(&mut writer)?; } else { mem += false.serialize_into(&mut writer)?; }" in ser
                            and "let x = if bool::deserialize_from(&mut reader)? { Some(S::deserialize_from(&mut reader)?) } "
                                "else { None };" in ser,
        "vec_len_first": "let mut mem = self.len().serialize_into(&mut writer)?; for x in self { "
                         "mem += x.serialize_into(&mut writer)?; }" in ser
                         and "let len = usize::deserialize_from(&mut reader)?; let mut vec = Self::with_capacity(len); "
                             "for _ in 0..len { vec.push(S::deserialize_from(&mut reader)?); }" in ser,
        "vec_size_fast_path": "S::size_of().map_or_else( || usize::size_of().unwrap() + self.iter().fold(0, |acc, x| acc + "
                              "x.size_in_bytes()), |m| usize::size_of().unwrap() + m * self.len(), )" in ser,
        "option_size": "self.as_ref().map_or(0, |x| x.size_in_bytes()) + bool::size_of().unwrap()" in ser,
    }
    prims_declared = re.findall(r"common_def!\((\w+)\);", prim)
    lines.append("")
    for k, v in facts.items():
        lines.append("Definition fact_%s : bool := %s." % (k, "true" if v else "false"))
    lines.append("Definition generic_facts : list bool := [%s]." % "; ".join("fact_" + k for k in facts))
    lines.append("(* primitives with a common_def!: %s *)" % ", ".join(prims_declared))
    for need in ("u8", "u16", "usize", "isize"):
        if need not in prims_declared:
            raise ParseError("primitive %s lost its Serializable impl" % need)
    return "\n".join(lines) + "\n"


# ---------------------------------------------------------------------------------------------
# loop-free methods of the core modules -> gen/MethodsGen.v
#
# Translation scheme (the equalities with the hand models are Proofs/MethodsTie.v):
#
#  * One definition `<module>_<fn>` per TARGET function, taking the build configuration `c : cfg`, then `self`
#    (for methods; the hand model's record type for the struct, see RECORDS) and the Rust parameters.
#    Result types:   T                       -> res T'        (usize -> N, bool, Option<T> -> option T', struct -> record)
#                    Result<T> (not &mut)    -> res (option T')                    (None = Err)
#                    &mut self, ()           -> res Rec                            (the new state)
#                    &mut self, Result<()>   -> res (Rec * bool)                   (new state, returned Ok(())?)
#  * Expressions are translated left to right into a list of monadic bindings followed by a pure term: every
#    `+ - * << >>` goes through the checked primitive of Base/Res.v (`add c`, ...), `v[i]` through `idx`, `.unwrap()` /
#    `.expect()` through `unwrap`, `/` and `%` by a non-zero constant are pure `N.div` / `N.modulo`, otherwise
#    `div_` / `rem_`.  `a && b` / `a || b` with effects in `b` become `if a then (.. b) else Ok false` (short circuit);
#    closures only occur as arguments of `map_or` / `filter` / `map` on an Option and become a `match` whose `Some`
#    branch contains the closure's effects.  `e?` on an Option becomes `match e with None => Ok None | Some x => ..`.
#  * Statements: `let` -> `let .. in` (or the binder of the last monadic step); `x op= e` evaluates `e` first (Rust's
#    order for primitive operands) and rebinds `x`.  Mutation of `self` is state passing: `self.f = e`,
#    `self.v[i] op= e` (idx, then setN), `self.v.push(e)` (`++ [e]`), `*self.v.last_mut().unwrap() op= e`
#    (assert non-empty, then upd_last), `self.f.mutator(..)` (callee returns the new field value) all rebind the
#    Coq variable `self` to a new record.  `if c { return v; }` puts the rest of the body in the `else` branch; an
#    `if`/`else` statement without `return` becomes a join `vars <- (if c then (.. Ok vars) else (.. Ok vars)) ;;` over
#    the variables assigned in either branch.  An `Err(anyhow!(..))` result is "rejected": `Ok (self, false)` /
#    `Ok None`; the arguments of the error message must be effect free (they are checked and dropped).
#  * Callees: a TARGET of the same module (or a TARGET of an earlier module that has no hand-model counterpart)
#    is called in its generated form; the callees listed in MODEL_CALLEES (loops, other modules) are the hand-model
#    functions, their signatures are re-read from the Rust source.  Word primitives of broadword.rs are the
#    spec-level functions (C14 proves the generated broadword code equal to them).
#  * Anything else in a TARGET function raises ParseError naming the function (exit status 2).  Non-target
#    functions of the same files are not looked at.
# ---------------------------------------------------------------------------------------------

# Rust struct -> (record type of the hand model, [(rust field, rust type, projection)]) -- checked against the source
RECORDS = {
    "BitVector": ("bitvec", [("words", "Vec<usize>", "bv_words"), ("len", "usize", "bv_len")]),
    "Rank9SelIndex": ("r9index", [("len", "usize", "r_len"), ("block_rank_pairs", "Vec<usize>", "r_brp"),
                                  ("select1_hints", "Option<Vec<usize>>", "r_h1"),
                                  ("select0_hints", "Option<Vec<usize>>", "r_h0")]),
    "CompactVector": ("compvec", [("chunks", "BitVector", "cv_chunks"), ("len", "usize", "cv_len"),
                                  ("width", "usize", "cv_width")]),
    "DArray": ("darray", [("bv", "BitVector", "da_bv"), ("s1", "DArrayIndex", "da_s1"),
                          ("s0", "Option<DArrayIndex>", "da_s0"), ("r9", "Option<Rank9SelIndex>", "da_r9")]),
    "DArrayIndex": ("daindex", [("block_inventory", "Vec<isize>", "d_block_inv"),
                                ("subblock_inventory", "Vec<u16>", "d_sub_inv"),
                                ("overflow_positions", "Vec<usize>", "d_overflow"),
                                ("num_positions", "usize", "d_num_positions"), ("over_one", "bool", "d_over_one")]),
    "EliasFano": ("eliasfano", [("high_bits", "DArray", "ef_high"), ("low_bits", "BitVector", "ef_low"),
                                ("low_len", "usize", "ef_low_len"), ("universe", "usize", "ef_universe")]),
    "WaveletMatrix": (None, None),        # only static functions are translated
}

TYPE_FILES = {
    "BitVector": "src/bit_vectors/bit_vector.rs",
    "Rank9SelIndex": "src/bit_vectors/rank9sel/inner.rs",
    "CompactVector": "src/int_vectors/compact_vector.rs",
    "DArray": "src/bit_vectors/darray.rs",
    "DArrayIndex": "src/bit_vectors/darray/inner.rs",
    "EliasFano": "src/mii_sequences/elias_fano.rs",
    "WaveletMatrix": "src/char_sequences/wavelet_matrix.rs",
    "utils": "src/utils.rs",
}

# (module name, owner: struct or free-function module, constants prefix in ConstsGen.v or None)
METHOD_MODULES = [
    ("utils", "utils", None),
    ("bit_vector", "BitVector", "bit_vector"),
    ("rank9", "Rank9SelIndex", "rank9"),
    ("compact_vector", "CompactVector", None),
    ("wavelet_matrix", "WaveletMatrix", None),
    ("darray_index", "DArrayIndex", None),
    ("darray", "DArray", None),
    ("elias_fano", "EliasFano", "elias_fano"),
]

# module -> [(trait or None, function)]
METHOD_TARGETS = {
    "utils": [(None, "needed_bits"), (None, "ceiled_divide")],
    "bit_vector": [(None, "words_for"), (None, "with_capacity"), (None, "len"), (None, "num_words"),
                   (None, "words"), ("NumBits", "num_bits"),
                   (None, "get_bit"), (None, "set_bit"), (None, "push_bit"), (None, "get_bits"),
                   (None, "set_bits"), (None, "push_bits"), (None, "get_word64"),
                   ("Access", "access"), ("Rank", "rank0"), ("NumBits", "num_ones")],
    "rank9": [(None, "num_ones"), (None, "num_zeros"), (None, "num_blocks"), (None, "block_rank"),
              (None, "sub_block_ranks"), (None, "sub_block_rank"), (None, "block_rank0"),
              (None, "rank1"), (None, "rank0")],
    "compact_vector": [(None, "len"), (None, "width"), (None, "new"), (None, "with_capacity"),
                       (None, "get_int"), (None, "set_int"), (None, "push_int")],
    "wavelet_matrix": [(None, "get_msb")],
    "darray_index": [(None, "num_ones")],
    "darray": [(None, "len"), (None, "bit_vector"), ("NumBits", "num_bits"), ("NumBits", "num_ones"), ("Access", "access"),
               ("Rank", "rank1"), ("Rank", "rank0"), ("Select", "select1"), ("Select", "select0")],
    "elias_fano": [(None, "len"), (None, "universe"), (None, "select"), (None, "delta"), (None, "predecessor"),
                   (None, "successor")],
}

# hand-model functions used as callees: (owner, fn) -> ("res", name) monadic `name c recv args` | ("pure", format).
# The "pure" accessors of structs are themselves TARGETS of their own module: MethodsTie.v proves the generated
# getter equal to `Ok (projection)`, which is what justifies the entry here.
MODEL_CALLEES = {
    ("BitVector", "rank1"): ("res", "BitVector.rank1"),
    ("BitVector", "get_bits"): ("res", "BitVector.get_bits"),
    ("BitVector", "set_bits"): ("res", "BitVector.set_bits"),
    ("BitVector", "push_bits"): ("res", "BitVector.push_bits"),
    ("BitVector", "access"): ("res", "BitVector.access"),
    ("BitVector", "num_bits"): ("pure", "(bv_len %s)"),
    ("BitVector", "len"): ("pure", "(bv_len %s)"),
    ("BitVector", "words"): ("pure", "(bv_words %s)"),
    ("Rank9SelIndex", "rank1"): ("res", "Rank9.rank1"),
    ("Rank9SelIndex", "rank0"): ("res", "Rank9.rank0"),
    ("DArrayIndex", "select"): ("res", "DArray.da_select"),
    ("DArrayIndex", "num_ones"): ("pure", "(d_num_positions %s)"),
    ("BitVector", "predecessor1"): ("res", "BitVector.predecessor1"),
    ("DArray", "select1"): ("res", "DArray.da_select1"),
    ("DArray", "bit_vector"): ("pure", "(da_bv %s)"),
    ("DArray", "num_ones"): ("pure", "(da_num_ones %s)"),
    ("EliasFano", "rank"): ("res", "EliasFano.ef_rank"),
    # broadword.rs: spec-level word functions (C14)
    ("broadword", "msb"): ("pure", "(msb_spec %s)"),
    ("broadword", "lsb"): ("pure", "(lsb_spec %s)"),
    ("broadword", "popcount"): ("pure", "(popcN %s)"),
    ("broadword", "select_in_word"): ("pure", "(select_in_word_spec %s)"),
}
BROADWORD_SIGS = {"msb": (["usize"], "Option<usize>"), "lsb": (["usize"], "Option<usize>"),
                  "popcount": (["usize"], "usize"), "select_in_word": (["usize", "usize"], "Option<usize>")}

COQ_RESERVED = set("""as at cofix else end exists exists2 fix for forall fun if IF in let match mod Prop return Set
    then Type using where with c add sub mul shl shr wmul wshl not64 idx unwrap assert_ dassert bind lenN nthN setN
    upd_last b2n popcN msb_spec lsb_spec checked_add div_ rem_ fst snd negb andb orb Some None Ok Panic true false
    cfg res W MASK64 list option N bool unit tt""".split())

USIZE, BOOL, UNIT, ISIZE, U16 = ("usize",), ("bool",), ("unit",), ("isize",), ("u16",)
U8 = ("u8",)                              # elements of Vec<u8> (DacsByte levels): an N below 256
BACKING = ("backing",)                    # the type parameter B of WaveletMatrix<B>: the sum type `backing` (Model/Wavelet.v)
TYPE_PARAMS = {"B": BACKING}              # type parameters of impl blocks (not bound by a where clause of the function)
RANGEVAL = ("rangeval",)                  # a `Range<usize>` value (parameter / argument): the pair (start, end)
# registry key -> name of the struct in its Rust file, where they differ (three structs are called `Iter`)
RUST_NAME = {}
ZCMPS = {"==": "Z.eqb %s %s", "!=": "negb (Z.eqb %s %s)", "<": "Z.ltb %s %s", "<=": "Z.leb %s %s",
         ">": "Z.ltb %s %s", ">=": "Z.leb %s %s"}
LOOP_KINDS = ("for", "while", "whilelet", "loop")
# traits of bit_vectors.rs that bound the type parameter B of WaveletMatrix<B>: trait -> methods
BACKING_TRAITS = {"Access": ["access"], "Rank": ["rank1", "rank0"], "Select": ["select1", "select0"],
                  "NumBits": ["num_bits", "num_ones", "num_zeros"], "Build": ["build_from_bits"]}
# method of a value of type B -> (parameter types, result type); the callee is the dispatch function `backing_<name>`
# defined in gen/LoopsGen.v over the generated impls of Rank9Sel, DArray and BitVector (LoopsGen.backing_dispatch)
BACKING_METHODS = {"access": ([USIZE], ("opt", BOOL)), "rank1": ([USIZE], ("opt", USIZE)), "rank0": ([USIZE], ("opt", USIZE)),
                   "select1": ([USIZE], ("opt", USIZE)), "select0": ([USIZE], ("opt", USIZE)),
                   "num_bits": ([], USIZE), "num_ones": ([], USIZE), "num_zeros": ([], USIZE)}


def coq_ident(name):
    if name in COQ_RESERVED or re.fullmatch(r"t\d+", name):
        return name + "_"
    return name


def parse_rtype(s, self_name, generics=None):
    s = " ".join(s.split())
    s = re.sub(r"^&\s*('[a-z_]+\s+)?(mut\s+)?", "", s)
    s = re.sub(r"\s*<\s*'[a-z_]+\s*>$", "", s)           # Iter<'a>, UnaryIter<'a>
    gm = re.fullmatch(r"([A-Z][A-Za-z0-9]*)\s*<\s*(?:'[a-z_]+\s*,\s*)?B\s*>", s)     # WaveletMatrix<B>, Iter<'a, B>
    if gm and gm.group(1) not in ("Option", "Vec", "Result", "Range"):
        s = gm.group(1)
    if generics and s in generics:
        return generics[s]
    if s in TYPE_PARAMS:
        return TYPE_PARAMS[s]
    if s == "Range<usize>":                               # a `lo..hi` value: the pair (lo, hi)
        return RANGEVAL
    if s.startswith("(") and s.endswith(")") and s != "()":
        return ("tuple", [parse_rtype(x, self_name, generics) for x in rp.split_top(s[1:-1], ",")])
    if s == "usize":
        return USIZE
    if s == "bool":
        return BOOL
    if s == "()":
        return UNIT
    if s in ("isize", "u16", "u8"):           # stored in some records; casts, comparisons, isize `-` (LoopsGen)
        return (s,)
    m = re.fullmatch(r"(Option|Vec|Result)\s*<(.*)>", s)
    if m:
        inner = parse_rtype(m.group(2), self_name, generics)
        return ({"Option": "opt", "Vec": "vec", "Result": "result"}[m.group(1)], inner)
    m = re.fullmatch(r"\[(.*)\]", s)
    if m:
        return ("vec", parse_rtype(m.group(1), self_name, generics))
    if s == "Self":
        if self_name is None:
            raise ParseError("`Self` outside an impl")
        return ("struct", self_name)
    if s in RECORDS:
        return ("struct", s)
    raise ParseError("unsupported type %r" % s)


def coq_type(t):
    k = t[0]
    if k == "usize":
        return "N"
    if k == "bool":
        return "bool"
    if k == "unit":
        return "unit"
    if k == "isize":
        return "Z"
    if k in ("u16", "u8"):
        return "N"
    if k == "backing":
        return "backing"
    if k == "rangeval":
        return "(N * N)"
    if k == "tuple":
        return "(%s)" % " * ".join(coq_type(x) for x in t[1])
    if k == "opt":
        return "(option %s)" % coq_type(t[1])
    if k == "vec":
        return "(list %s)" % coq_type(t[1])
    if k == "struct":
        rec = RECORDS[t[1]][0]
        if rec is None:
            raise ParseError("struct %s has no record in the hand model" % t[1])
        return rec
    raise ParseError("type %r has no Coq counterpart" % (t,))


def is_mut_ref(type_src):
    return bool(re.match(r"&\s*('[a-z_]+\s+)?mut\b", type_src.strip()))


def strip_line_comments(src):
    """remove whole-line comments (doc comments contain `fn main()` examples)"""
    return re.sub(r"^[ \t]*//[^\n]*$", "", src, flags=re.M)


def ite(cond, a, b):
    """`if cond then (a) else (b)`, on several lines when a branch is long"""
    if "\n" not in a and "\n" not in b and len(a) + len(b) + len(cond) < 90:
        return "if %s then (%s) else (%s)" % (cond, a, b)
    return "if %s then (\n%s\n) else (\n%s\n)" % (cond, indent(a), indent(b))


def match_opt(scrut, none, x, some):
    """`match scrut with None => none | Some x => (some) end`, on several lines when the Some branch is long"""
    if "\n" not in some and len(scrut) + len(some) < 80:
        return "match %s with None => %s | Some %s => (%s) end" % (scrut, none, x, some)
    return "match %s with\n| None => %s\n| Some %s =>\n%s\nend" % (scrut, none, x, indent(some, 4))


def render(items, final):
    """items: ("bind", pattern, term) | ("let", name, term) | ("ifret", cond, term) | ("try", opt term, name, none term)"""
    lines, closers = [], []
    for it in items:
        if it[0] == "bind":
            term = it[2]
            if re.match(r"match\b", term) and term.endswith("end") and term.count("match") == 1:
                term = term.replace("\n", "\n  ")                  # a single closed match needs no parentheses
            elif "\n" in term or re.match(r"(if|match|let)\b", term) or " <- " in term:
                term = "(" + term.replace("\n", "\n  ") + ")"
            lines.append("%s <- %s ;;" % (it[1], term))
        elif it[0] == "let":
            lines.append("let %s := %s in" % (it[1], it[2]))
        elif it[0] == "ifret":
            if "\n" in it[2]:
                lines.append("if %s then (\n%s\n) else (" % (it[1], indent(it[2])))
            else:
                lines.append("if %s then (%s) else (" % (it[1], it[2]))
            closers.append(")")
        elif it[0] == "try":
            lines.append("match %s with None => %s | Some %s =>" % (it[1], it[3], it[2]))
            closers.append("end")
        elif it[0] == "ifelse":                  # `while cond`: the rest is the then-branch
            lines.append("if %s then (" % it[1])
            closers.append(") else (%s)" % it[2])
        elif it[0] == "matchsome":               # `if let Some(x) = e { ..jump }`: the rest is the None branch
            lines.append("match %s with\n| Some %s =>\n%s\n| None =>" % (it[1], it[2], indent(it[3], 4)))
            closers.append("end")
        elif it[0] == "bindret":                 # a loop that can be left by `return`
            term = it[2]
            if "\n" in term:
                term = "(" + term.replace("\n", "\n  ") + ")"
            lines.append("%s <- %s ;;" % (it[3], term))
            lines.append("match %s with inr v_ => Ok %s | inl %s =>" % (it[3], it[4] if len(it) > 4 else "v_", it[1]))
            closers.append("end")
        else:
            raise ParseError("internal: unknown item %r" % (it,))
    lines.append(final)
    if closers:
        lines.append(" ".join(reversed(closers)))
    return "\n".join(lines)


class MethodsGen:
    """all target functions of all modules; memoised, callees first"""

    type_files, modules, targets = TYPE_FILES, METHOD_MODULES, METHOD_TARGETS

    def __init__(self, repo):
        self.repo = repo
        self.where = {}        # (owner, trait, fn) -> source of the `where` clause
        self.item_ty = {}      # (owner, trait) -> source of `type Item = ..;` of that impl block
        self.src = {}          # owner -> source without tests / comment lines
        self.fns = {}          # owner -> {(trait, name): (params, ret, body)}  (first occurrence wins per key)
        self.byname = {}       # owner -> {name: [(trait, params, ret, body)]}
        self.consts = {}       # module -> {NAME: value}
        self.done = {}         # (module, fn) -> dict(name, text, pure, sig)
        self.order = []
        self.stack = []
        self.module_of_owner = {o: m for m, o, _ in self.modules}
        self.const_prefix = {m: p for m, _, p in self.modules}
        for owner, path in self.type_files.items():
            src = strip_line_comments(rp.strip_tests(open(os.path.join(repo, path)).read()))
            self.src[owner] = src
            table, names = {}, {}
            if owner[0].islower():          # free functions
                for n, p, r, b, _ in rp.functions(src):
                    table.setdefault((None, n), (p, r, b))
                    names.setdefault(n, []).append((None, p, r, b))
            else:
                for trait, ty, body in rp.impl_blocks(src):
                    if ty != RUST_NAME.get(owner, owner):
                        continue
                    im = re.search(r"\btype\s+Item\s*=\s*([^;]+);", body)
                    if im:
                        self.item_ty[(owner, trait)] = im.group(1).strip()
                    for n, p, r, b, pos in rp.functions(body):
                        if (trait, n) in table:
                            raise ParseError("%s: two definitions of %s" % (owner, n))
                        table[(trait, n)] = (p, r, b)
                        names.setdefault(n, []).append((trait, p, r, b))
                        self.where[(owner, trait, n)] = rp.function_where(body, pos)
            self.fns[owner], self.byname[owner] = table, names
        for mod, owner, prefix in self.modules:
            self.consts[mod] = self.module_consts(owner, prefix)
        # the record layouts assumed above must be the struct declarations of the source
        for owner in self.type_files:
            rec, fields = RECORDS.get(owner, (None, None))
            if fields is None:
                continue
            decl, _ = parse_struct(self.src[owner], RUST_NAME.get(owner, owner))
            if [(f, t.replace(" ", "")) for f, t in decl] != [(f, t.replace(" ", "")) for f, t, _ in fields]:
                raise ParseError("struct %s changed: source has %r, the model record %s has %r" % (
                    owner, decl, rec, [(f, t) for f, t, _ in fields]))

    def module_consts(self, owner, prefix):
        env = {}
        if prefix is not None:
            for name, ty, init in rp.top_level_consts(self.src[owner]):
                if ty == "usize":
                    env[name] = eval_const_src(init, env)
        return env

    # -- lookups -------------------------------------------------------------------------------
    def find_fn(self, owner, name, trait="?"):
        """(trait, params, ret, body) of the unique function `name` of `owner` (any impl block unless trait given)"""
        cands = self.byname.get(owner, {}).get(name, [])
        if trait != "?":
            cands = [x for x in cands if x[0] == trait]
        if len(cands) != 1:
            raise ParseError("%s::%s: %d definitions found" % (owner, name, len(cands)))
        return cands[0]

    def generics(self, owner, trait, name):
        """generic parameters bound by `I: IntoIterator<Item = T>` (where clause): they are lists of T"""
        out = {}
        for part in rp.split_top(self.where.get((owner, trait, name), ""), ","):
            if re.fullmatch(r"\s*Self\s*:\s*Sized\s*", part):
                continue
            m = re.fullmatch(r"\s*([A-Z])\s*:\s*ToPrimitive\s*", part)
            if m:                                          # instantiated at usize: `to_usize` is the identity, never None
                out[m.group(1)] = USIZE
                continue
            m = re.fullmatch(r"\s*([A-Z])\s*:\s*IntoIterator\s*<\s*Item\s*=\s*([A-Za-z0-9_]+)\s*>\s*", part)
            if not m:
                raise ParseError("unsupported where clause %r" % part.strip())
            out[m.group(1)] = ("vec", parse_rtype(m.group(2), None))
        return out

    def ret_source(self, owner, trait, ret):
        """`Self::Item` is the associated type of the impl block"""
        if "Self::Item" in ret:
            if (owner, trait) not in self.item_ty:
                raise ParseError("Self::Item without `type Item = ..;`")
            ret = ret.replace("Self::Item", self.item_ty[(owner, trait)])
        return ret

    def signature(self, owner, name, trait="?"):
        tr, params, ret, _ = self.find_fn(owner, name, trait)
        self_name = owner if owner[0].isupper() else None
        g = self.generics(owner, tr, name)
        ptys = [(n, parse_rtype(t, self_name, g)) for n, t in rp.typed_params(params)]
        rty = parse_rtype(self.ret_source(owner, tr, ret), self_name, g) if ret else UNIT
        return rp.self_kind(params), ptys, rty

    def alias(self, from_owner, name):
        """the registry key of the struct called `name` in the file of from_owner (LoopsGen: the structs called `Iter`)"""
        return name

    def iterator_next(self, owner):
        """(coq name, item type) of the generated `Iterator::next` of a struct, or None (LoopsGen only)"""
        return None

    recursion = {}             # (module, fn) -> fuel term of a self-recursive function (LoopsGen only)

    def backing_dispatch(self):
        raise ParseError("values of a type parameter are only supported in gen/LoopsGen.v")

    broadword_consts = {}      # constants of broadword.rs usable as `broadword::NAME` (LoopsGen only)
    broadword_fns = {}         # functions of broadword.rs called in their generated form (LoopsGen only)

    def mut_params(self, owner, name):
        """indexes of the `&mut T` parameters of owner::name: the callee returns their new values"""
        cands = self.byname.get(owner, {}).get(name, [])
        if len(cands) != 1:
            return []
        return [i for i, (_, t) in enumerate(rp.typed_params(cands[0][1])) if is_mut_ref(t)]

    def is_target(self, mod, name):
        return any(n == name for _, n in self.targets[mod])

    def target_trait(self, mod, name):
        return [t for t, n in self.targets[mod] if n == name][0]

    def resolve_callee(self, from_mod, owner, name):
        """("gen", coq name, sig) | ("res", coq name, sig) | ("pure", format, sig)"""
        mod = self.module_of_owner.get(owner)
        if mod == from_mod and self.is_target(mod, name):
            info = self.translate(mod, name)
            return "gen", info["name"], self.signature(owner, name, self.target_trait(mod, name))
        if (owner, name) in MODEL_CALLEES:
            how, what = MODEL_CALLEES[(owner, name)]
            if owner == "broadword":
                ps, r = BROADWORD_SIGS[name]
                sig = ("static", [("x", parse_rtype(p, None)) for p in ps], parse_rtype(r, None))
            else:
                sig = self.signature(owner, name)
            return how, what, sig
        if mod is not None and self.is_target(mod, name):      # target of another module without model counterpart
            info = self.translate(mod, name)
            return "gen", info["name"], self.signature(owner, name, self.target_trait(mod, name))
        raise ParseError("call to %s::%s, which is neither a translated function nor a known model function" % (owner, name))

    def has_default_target(self, owner):
        mod = self.module_of_owner.get(owner)
        return mod is not None and ("Default", "default") in self.targets.get(mod, [])

    def has_derive_default(self, owner):
        m = re.search(r"#\[derive\(([^)]*)\)\]\s*pub struct %s\b" % RUST_NAME.get(owner, owner), self.src[owner])
        return bool(m and "Default" in [x.strip() for x in m.group(1).split(",")])

    def default_term(self, ty):
        k = ty[0]
        if k == "usize":
            return "0"
        if k == "bool":
            return "false"
        if k == "vec":
            return "[]"
        if k == "opt":
            return "None"
        if k == "struct":
            owner = ty[1]
            rec, fields = RECORDS[owner]
            if fields is None or not self.has_derive_default(owner):
                raise ParseError("%s::default() is not a derived Default of a modelled struct" % owner)
            return "{| %s |}" % "; ".join("%s := %s" % (p, self.default_term(parse_rtype(t, owner)))
                                          for _, t, p in fields)
        raise ParseError("no default for %r" % (ty,))

    # -- driver --------------------------------------------------------------------------------
    def translate(self, mod, name):
        key = (mod, name)
        if key in self.done:
            return self.done[key]
        if key in self.stack:
            if key == self.stack[-1] and key in self.recursion:     # a registered self-recursive function calls itself
                return dict(name="%s_%s_rec fuel_" % key, text=None, pure=False, kind=False)
            raise ParseError("recursive call cycle through %s::%s" % key)
        self.stack.append(key)
        try:
            owner = dict((m, o) for m, o, _ in self.modules)[mod]
            traits = [t for t, n in self.targets[mod] if n == name]
            try:
                trait, params, ret, body = self.find_fn(owner, name, traits[0])
                tr = FnBody(self, mod, owner, name, params, self.ret_source(owner, trait, ret),
                            self.generics(owner, trait, name))
                text, pure = tr.run(rp.parse_fn_body(body))
            except (ParseError, KeyError, IndexError, TypeError, AttributeError, ValueError) as ex:
                if isinstance(ex, ParseError) and str(ex).startswith("target "):
                    raise
                what = ex if isinstance(ex, ParseError) else "outside the supported subset (%s: %s)" % (
                    type(ex).__name__, ex)
                raise ParseError("target %s::%s (%s): %s" % (mod, name, self.type_files[owner], what))
            info = dict(name="%s_%s" % (mod, name), text=text, pure=pure, kind=tr.uses_kind)
            self.done[key] = info
            self.order.append(key)
            return info
        finally:
            self.stack.pop()

    def run(self):
        for mod, _, _ in self.modules:
            for _, name in self.targets[mod]:
                self.translate(mod, name)
        return [self.done[k]["text"] for k in self.order]


class FnBody:
    """translation of one function body (see the scheme at the top of this section)"""

    def __init__(self, gen, mod, owner, name, params_src, ret_src, generics=None):
        self.gen, self.mod, self.owner, self.name = gen, mod, owner, name
        self.self_name = owner if owner[0].isupper() else None
        self.kind = rp.self_kind(params_src)
        self.params = [(n, parse_rtype(t, self.self_name, generics)) for n, t in rp.typed_params(params_src)]
        self.ret = parse_rtype(ret_src, self.self_name, generics) if ret_src else UNIT
        self.loops = []               # open loops, innermost last: dict(brk = term of a `break`)
        self.loop_ids = 0
        self.ret_wrap = None          # inside a loop that can be left by `return`: the injection of the value
        self.counter = 0
        self.env = {}                 # rust name -> (coq name, type)
        self.assigned = [set()]       # per open scope: outer variables rebound in it
        self.declared = [set()]       # per open scope: variables introduced by `let` in it
        self.uses_kind = False        # the body names the type parameter B: the function takes `kind_ : bkind`
        self.value_scope = 0          # > 0: inside a conditional *expression*: no return / ? / assignment
        self.join_scope = 0           # > 0: inside an if/else statement without return: no return / ?
        # `self` / `mut self` by value: an ordinary value named self (its fields may be assigned when `mut`)
        self.mutparams = [n for n, t in rp.typed_params(params_src) if is_mut_ref(t)]
        if self.mutparams and (self.kind != "static" or self.ret != UNIT):
            raise ParseError("`&mut` parameters are supported in static functions returning ()")
        if self.kind != "static":
            self.env["self"] = ("self", ("struct", owner))
        for n, t in self.params:
            self.env[n] = (coq_ident(n), t)
        if self.kind == "mut" and self.ret[0] == "result" and self.ret != ("result", UNIT):
            raise ParseError("&mut self methods returning a Result must return Result<()>")

    # -- small helpers -------------------------------------------------------------------------
    def fresh(self):
        self.counter += 1
        return "t%d" % self.counter

    def bind(self, out, term):
        t = self.fresh()
        out.append(("bind", t, term))
        return t

    def const_value(self, e):
        """value of a constant expression (literals and constants of this module), or None"""
        try:
            return const_eval(e, self.gen.consts[self.mod])
        except ParseError:
            return None

    def record_fields(self, owner):
        rec, fields = RECORDS.get(owner, (None, None))
        if fields is None:
            raise ParseError("fields of %s are not modelled" % owner)
        return fields

    def dummy(self, ty):
        """some value of the type: the default argument of `idx` (never returned: idx panics out of range)"""
        k = ty[0]
        if k in ("usize", "u16", "u8"):
            return "0"
        if k == "isize":
            return "0%Z"
        if k == "bool":
            return "false"
        if k == "vec":
            return "[]"
        if k == "opt":
            return "None"
        if k == "rangeval":
            return "(0, 0)"
        if k == "tuple":
            return "(%s)" % ", ".join(self.dummy(x) for x in ty[1])
        if k == "backing":
            return "(BBitVec {| bv_words := []; bv_len := 0 |})"
        if k == "struct":
            return "{| %s |}" % "; ".join("%s := %s" % (p, self.dummy(parse_rtype(t, ty[1])))
                                          for _, t, p in self.record_fields(ty[1]))
        raise ParseError("no value of type %r" % (ty,))

    def rebuild(self, owner, term, field, new):
        return "{| %s |}" % "; ".join("%s := %s" % (p, new if f == field else "%s %s" % (p, term))
                                      for f, _, p in self.record_fields(owner))

    def assign_var(self, name, term, out):
        if self.value_scope:
            raise ParseError("assignment to `%s` inside a conditional expression" % name)
        if name not in self.env:
            raise ParseError("assignment to unknown variable %s" % name)
        cname, ty = self.env[name]
        last = out[-1] if out else None
        if last and last[0] == "bind" and last[1] == term and re.fullmatch(r"t\d+", term):
            out[-1] = ("bind", cname, last[2])          # `x <- m ;;` instead of `t <- m ;; let x := t in`
        else:
            out.append(("let", cname, term))
        if name not in self.declared[-1]:
            self.assigned[-1].add(name)

    def set_place(self, place, new, out):
        if place[0] == "var":
            return self.assign_var(place[1], new, out)
        if place[0] == "field":
            scratch = []
            qt, qty = self.expr(place[1], scratch)
            if scratch or qty[0] != "struct":
                raise ParseError("unsupported place expression")
            return self.set_place(place[1], self.rebuild(qty[1], qt, place[2], new), out)
        if place[0] == "index":                               # v[i] as (part of) a place: v and i are re-read
            scratch = []
            bt, bty = self.expr(place[1], scratch)
            it, ity = self.expr(place[2], scratch)
            if scratch or bt is None or bty[0] != "vec" or ity != USIZE:
                raise ParseError("unsupported place expression (an element of a vector that is itself computed)")
            return self.set_place(place[1], "(setN %s %s %s)" % (bt, it, new), out)
        raise ParseError("unsupported place expression")

    def note_assigned(self, name):
        if self.value_scope:
            raise ParseError("assignment to `%s` inside a conditional expression" % name)
        if name not in self.declared[-1]:
            self.assigned[-1].add(name)

    def refine_vec(self, ast, ty):
        """a vector created by `vec![]` learns its element type at the first push / call"""
        if ast[0] in ("ref", "refmut"):
            ast = ast[1]
        if ast[0] == "var" and ast[1] in self.env and self.env[ast[1]][1] == ("vec", None) and ty[1] is not None:
            self.env[ast[1]] = (self.env[ast[1]][0], ty)
        if ast[0] == "index" and ast[1][0] == "var" and ast[1][1] in self.env \
                and self.env[ast[1][1]][1] == ("vec", ("vec", None)) and ty[1] is not None:
            self.env[ast[1][1]] = (self.env[ast[1][1]][0], ("vec", ty))      # vec![vec![]; n]: rows learn their type

    def restore_env(self, saved, inner_declared):
        """leave a scope: back to the saved environment, keeping element types learnt for outer `vec![]` variables"""
        for n, (cn, ty) in list(saved.items()):
            if ty == ("vec", None) and n not in inner_declared and n in self.env:
                ity = self.env[n][1]
                if ity[0] == "vec" and ity[1] is not None:
                    saved[n] = (cn, ity)
            if ty == ("vec", ("vec", None)) and n not in inner_declared and n in self.env:
                ity = self.env[n][1]
                if ity[0] == "vec" and ity[1] is not None and ity[1][0] == "vec" and ity[1][1] is not None:
                    saved[n] = (cn, ity)
        self.env = saved

    def scoped(self, fn):
        """run fn with a copy of the environment and a fresh set of assigned variables"""
        saved = dict(self.env)
        self.assigned.append(set())
        self.declared.append(set())
        try:
            r = fn()
            return r, self.assigned[-1], dict(self.env)
        finally:
            self.assigned.pop()
            self.restore_env(saved, self.declared.pop())

    def value_block(self, fn):
        """fn(out) -> (term, ty) in a conditional expression scope; returns (out, term, ty)"""
        self.value_scope += 1
        try:
            out = []
            (t, ty), _, _ = self.scoped(lambda: fn(out))
            return out, t, ty
        finally:
            self.value_scope -= 1

    @staticmethod
    def res_of(out, t):
        """`res` term computing the pure term t after the bindings of out"""
        if out and out[-1][0] == "bind" and out[-1][1] == t and re.fullmatch(r"t\d+", t):
            return render(out[:-1], out[-1][2])
        return render(out, "Ok %s" % t)

    # -- expressions: returns (pure Coq term, type); effects are appended to out ------------------
    def expr(self, e, out):
        k = e[0]
        if k == "num":
            return str(e[1]), USIZE
        if k == "var":
            n = e[1]
            if n in self.env:
                cn, ty = self.env[n]
                if ty[0] == "alias_last":
                    raise ParseError("`%s` (a &mut into a vector) can only be assigned through" % n)
                if ty[0] in ("fn", "fnsel"):
                    raise ParseError("`%s` (a function value) can only be called" % n)
                return cn, ty
            if n == "None":
                return "None", ("opt", None)
            if n in ("true", "false"):
                return n, BOOL
            if n in self.gen.consts[self.mod]:
                return "%s_%s" % (self.gen.const_prefix[self.mod], n), USIZE
            raise ParseError("unknown identifier %s" % n)
        if k == "path":
            if e[1] == ["usize", "MAX"]:
                return "MASK64", USIZE
            if e[1] == ["u16", "MAX"]:
                return "65535", U16
            if len(e[1]) == 2 and e[1][0] == "broadword" and e[1][1] in self.gen.broadword_consts:
                return "BroadwordGen.%s" % e[1][1], USIZE      # the generated constant of gen/BroadwordGen.v
            if len(e[1]) == 2 and e[1][0] in ("Self", self.owner) and self.self_name is not None \
                    and e[1][1] in self.gen.byname.get(self.owner, {}):
                return None, ("fn", self.owner, e[1][1])       # a function used as a value: only callable
            raise ParseError("unsupported path %s" % "::".join(e[1]))
        if k == "cast":
            t, ty = self.expr(e[1], out)
            if t is None:
                raise ParseError("cast of a function value")
            if e[2] == "u32" and ty == USIZE:                  # truncation; only accepted as a shift amount
                return "(N.modulo %s 4294967296)" % t, ("u32",)
            if e[2] == "isize" and ty == USIZE:                # two's complement reinterpretation (Base/Loops.v)
                return "(usize_as_isize %s)" % t, ISIZE
            if e[2] == "u16" and ty == USIZE:                  # truncation
                return "(N.modulo %s 65536)" % t, U16
            if e[2] != "usize":
                raise ParseError("unsupported cast to %s" % e[2])
            if ty == BOOL:
                return "(b2n %s)" % t, USIZE
            if ty == USIZE:
                return t, USIZE
            if ty == ISIZE:
                return "(isize_as_usize %s)" % t, USIZE
            if ty == U16:
                return t, USIZE
            raise ParseError("unsupported cast from %r" % (ty,))
        if k == "ref":
            return self.expr(e[1], out)
        if k == "refmut":
            raise ParseError("`&mut` is only supported as the argument for a `&mut` parameter")
        if k == "un":
            t, ty = self.expr(e[2], out)
            if e[1] == "*" and t is not None and ty[0] in ("usize", "bool", "u8", "u16", "isize"):
                return t, ty                                   # `*r` of a reference to a Copy value
            if e[1] == "!" and ty == BOOL:
                return "(negb %s)" % t, BOOL
            if e[1] == "!" and ty == USIZE:
                return "(not64 %s)" % t, USIZE
            if e[1] == "-" and ty == ISIZE:                    # checked negation of an isize
                return self.bind(out, "isize_neg c %s" % t), ISIZE
            raise ParseError("unsupported unary %s on %r" % (e[1], ty))
        if k == "bin":
            return self.binop(e, out)
        if k == "field":
            t, ty = self.expr(e[1], out)
            if ty == RANGEVAL and e[2] in ("start", "end"):
                return "(%s %s)" % ("fst" if e[2] == "start" else "snd", t), USIZE
            if ty[0] != "struct":
                raise ParseError("field access on %r" % (ty,))
            for f, fty, proj in self.record_fields(ty[1]):
                if f == e[2]:
                    return "(%s %s)" % (proj, t), parse_rtype(fty, ty[1])
            raise ParseError("%s has no field %s" % (ty[1], e[2]))
        if k == "index" and e[2][0] in ("rangeto", "rangefrom", "range"):
            return self.slice(e, out)
        if k == "index":
            vt, vty = self.expr(e[1], out)
            it, ity = self.expr(e[2], out)
            if vty[0] != "vec" or ity != USIZE or vty[1] is None or vt is None:
                raise ParseError("unsupported indexing")
            return self.bind(out, "idx %s %s %s" % (self.dummy(vty[1]), vt, it)), vty[1]
        if k == "tuple" and not e[1]:
            return "tt", UNIT
        if k == "tuple":
            vals = [self.expr(x, out) for x in e[1]]
            return "(%s)" % ", ".join(t for t, _ in vals), ("tuple", [ty for _, ty in vals])
        if k == "veclit":                                      # vec![a, b, ..]  vec![]
            vals = [self.expr(x, out) for x in e[1]]
            tys = set(ty for _, ty in vals)
            if len(tys) > 1 or any(t is None for t, _ in vals):
                raise ParseError("unsupported vec![..]")
            return "[%s]" % "; ".join(t for t, _ in vals), ("vec", tys.pop() if tys else None)
        if k == "vecrep":                                      # vec![elem; count]
            t, ty = self.expr(e[1], out)
            n, nty = self.expr(e[2], out)
            if nty != USIZE or t is None or ty[0] not in ("usize", "bool", "vec", "struct"):
                raise ParseError("unsupported vec![..; ..]")
            return "(repeat %s (N.to_nat %s))" % (t, n), ("vec", ty)
        if k == "call":
            return self.call(e, out)
        if k == "mcall":
            return self.mcall(e, out)
        if k == "try":
            t, ty = self.expr(e[1], out)
            if self.value_scope or self.join_scope:
                raise ParseError("`?` inside a conditional expression or a joined if/else")
            if ty[0] == "result" and self.ret[0] == "result":          # Err(e)? returns Err(e): "rejected"
                if self.kind == "mut":
                    rejected = "(%s, false)" % self.env["self"][0]
                elif self.kind in ("static", "ref"):
                    rejected = "None"
                else:
                    raise ParseError("`?` on a Result in a function taking self by value")
                if ty[1] == UNIT:                                      # the value is the boolean "returned Ok(())"
                    out.append(("ifret", "(negb %s)" % t, "Ok %s" % self.inj(rejected)))
                    return "tt", UNIT
                v = self.fresh()
                out.append(("try", t, v, "Ok %s" % self.inj(rejected)))
                return v, ty[1]
            if ty[0] != "opt" or self.ret[0] != "opt" or self.kind == "mut":
                raise ParseError("`?` is supported on an Option in a function returning an Option (or on a Result in "
                                 "a function returning a Result)")
            v = self.fresh()
            out.append(("try", t, v, "Ok %s" % self.inj("None")))
            return v, ty[1]
        if k == "structlit":
            owner = self.owner if e[1] == "Self" else e[1]
            fields = self.record_fields(owner)
            given = {}
            for f, fe in e[2]:                       # source order = evaluation order
                if f in given:
                    raise ParseError("field %s given twice" % f)
                given[f] = self.expr(fe, out)[0]
            if sorted(given) != sorted(f for f, _, _ in fields):
                raise ParseError("struct literal of %s does not give exactly its fields" % owner)
            return "{| %s |}" % "; ".join("%s := %s" % (p, given[f]) for f, _, p in fields), ("struct", owner)
        if k in ("if", "block"):
            return self.cond_value(e, out)
        raise ParseError("unsupported expression %s" % k)

    def slice(self, e, out):
        """&v[..k]  &v[j..]  &v[j..k]: the bounds check of the slice, then firstn / skipn"""
        vt, vty = self.expr(e[1], out)
        if vty[0] != "vec":
            raise ParseError("slice of a non-vector")
        r = e[2]
        lo = self.expr(r[1], out) if r[0] in ("rangefrom", "range") else None
        hi = self.expr(r[-1], out) if r[0] in ("rangeto", "range") else None
        if any(x is not None and x[1] != USIZE for x in (lo, hi)):
            raise ParseError("non-usize slice bound")
        if lo is not None and hi is not None:
            out.append(("bind", "_", "assert_ (andb (N.leb %s %s) (N.leb %s (lenN %s)))" % (lo[0], hi[0], hi[0], vt)))
            return "(firstn (N.to_nat (%s - %s)) (skipn (N.to_nat %s) %s))" % (hi[0], lo[0], lo[0], vt), vty
        if hi is not None:
            out.append(("bind", "_", "assert_ (N.leb %s (lenN %s))" % (hi[0], vt)))
            return "(firstn (N.to_nat %s) %s)" % (hi[0], vt), vty
        out.append(("bind", "_", "assert_ (N.leb %s (lenN %s))" % (lo[0], vt)))
        return "(skipn (N.to_nat %s) %s)" % (lo[0], vt), vty

    def cond_value(self, e, out):
        """if/else or block used as a value"""
        if e[0] == "block":
            if not e[1] and e[2] is not None:
                return self.expr(e[2], out) if e[2][0] != "if" else self.cond_value(e[2], out)

            if self.contains_return(e):
                raise ParseError("return / ? inside a block expression")

            def body(o):
                self.stmts(e[1], o)
                if e[2] is None:
                    raise ParseError("block without value")
                return self.expr(e[2], o)
            saved = dict(self.env)
            self.declared.append(set())
            try:                                       # an unconditional block: effects go straight to out
                r = body(out)
                clash = sorted(n for n in self.declared[-1] if n in saved)
                if clash:                              # the Coq `let` would stay in scope after the block
                    raise ParseError("block-local `%s` shadows an outer variable" % clash[0])
                return r
            finally:
                self.restore_env(saved, self.declared.pop())
        cond, cty = self.expr(e[1], out)
        if cty != BOOL or e[3] is None:
            raise ParseError("if without else (or a non-boolean condition) in value position")
        o1, t1, ty1 = self.value_block(lambda o: self.expr(e[2], o))
        o2, t2, ty2 = self.value_block(lambda o: self.expr(e[3], o))
        ty = ty1 if ty1 != ("opt", None) else ty2
        if ty1[0] == "fn" or ty2[0] == "fn":                   # `if b { Self::f } else { Self::g }`
            if ty1[0] != ty2[0] or o1 or o2:
                raise ParseError("unsupported selection of a function")
            return None, ("fnsel", cond, ty1, ty2)
        if not o1 and not o2:
            return "(if %s then %s else %s)" % (cond, t1, t2), ty
        return self.bind(out, ite(cond, self.res_of(o1, t1), self.res_of(o2, t2))), ty

    def binop(self, e, out):
        op = e[1]
        if op in ("&&", "||"):
            a, aty = self.expr(e[2], out)
            o2, b, bty = self.value_block(lambda o: self.expr(e[3], o))
            if aty != BOOL or bty != BOOL:
                raise ParseError("%s on non-booleans" % op)
            if not o2:
                return "(%s %s %s)" % ("andb" if op == "&&" else "orb", a, b), BOOL
            rhs = self.res_of(o2, b)                 # short circuit: the effects of b stay conditional
            if op == "&&":
                return self.bind(out, "if %s then (%s) else Ok false" % (a, rhs)), BOOL
            return self.bind(out, "if %s then Ok true else (%s)" % (a, rhs)), BOOL
        if op in ("..", "..="):
            a, aty = self.expr(e[2], out)
            b, bty = self.expr(e[3], out)
            if aty != USIZE or bty != USIZE:
                raise ParseError("range over non-usize")
            return None, ("range", a, b, op == "..=")
        a, aty = self.expr(e[2], out)
        b, bty = self.expr(e[3], out)
        return self.apply_op(op, a, aty, b, bty, e[3], out)

    def apply_op(self, op, a, aty, b, bty, b_ast, out):
        if aty == ISIZE:                               # comparisons and checked subtraction on isize (values in Z)
            if b_ast is not None and b_ast[0] == "num":
                b = "%d%%Z" % b_ast[1]
            elif bty != ISIZE:
                raise ParseError("operator %s on %r, %r" % (op, aty, bty))
            if op in ZCMPS:
                if op in (">", ">="):
                    a, b = b, a
                return "(" + ZCMPS[op] % (a, b) + ")", BOOL
            if op == "-":
                return self.bind(out, "isize_sub c %s %s" % (a, b)), ISIZE
            raise ParseError("unsupported operator %s on isize" % op)
        if aty != USIZE or bty != USIZE:
            raise ParseError("operator %s on %r, %r" % (op, aty, bty))
        if op in ARITH:
            return self.bind(out, "%s %s %s" % (ARITH[op], a, b)), USIZE
        if op in ("/", "%"):
            v = self.const_value(b_ast) if b_ast is not None else None
            if v is not None and v != 0:             # a non-zero constant divisor cannot panic
                return "(%s %s %s)" % ("N.div" if op == "/" else "N.modulo", a, b), USIZE
            return self.bind(out, "%s %s %s" % ("div_" if op == "/" else "rem_", a, b)), USIZE
        if op in BITOPS:
            return "(%s %s %s)" % (BITOPS[op], a, b), USIZE
        if op in CMPS:
            if op in (">", ">="):
                a, b = b, a
            return "(" + CMPS[op] % (a, b) + ")", BOOL
        raise ParseError("unsupported operator %s" % op)

    # -- calls -----------------------------------------------------------------------------------
    def call(self, e, out):
        f, args = e[1], e[2]
        if f == ("var", "Some"):
            if len(args) != 1:
                raise ParseError("Some takes one argument")
            t, ty = self.expr(args[0], out)
            if t is None:
                raise ParseError("Some(..) of a function value")
            return "(Some %s)" % t, ("opt", ty)
        if f[0] == "var" and f[1] in self.env and self.env[f[1]][1][0] in ("fn", "fnsel"):
            fty = self.env[f[1]][1]                            # call through a local function value
            if fty[0] == "fn":
                return self.call_fn(fty[1], fty[2], None, args, out)
            o1, t1, ty1 = self.value_block(lambda o: self.call_fn(fty[2][1], fty[2][2], None, args, o))
            o2, t2, ty2 = self.value_block(lambda o: self.call_fn(fty[3][1], fty[3][2], None, args, o))
            if ty1 != ty2:
                raise ParseError("the functions selected for `%s` have different result types" % f[1])
            return self.bind(out, ite(fty[1], self.res_of(o1, t1), self.res_of(o2, t2))), ty1
        if f[0] == "var" and f[1] in ("Ok", "Err"):
            raise ParseError("%s(..) is only supported as the result of the function" % f[1])
        if f[0] == "path" and len(f[1]) == 3 and f[1][0] == "bit_vectors" and f[1][1] in BACKING_TRAITS \
                and f[1][2] in BACKING_TRAITS[f[1][1]] and args:
            recv = args[0][1] if args[0][0] == "ref" else args[0]        # Trait::method(&x, ..) is x.method(..)
            return self.mcall(("mcall", recv, f[1][2], args[1:]), out)
        if f[0] != "path" or len(f[1]) != 2:
            raise ParseError("unsupported callee")
        owner, name = f[1]
        if (owner, name) == ("u8", "try_from") and len(args) == 1:        # Result<u8, _>: Err iff the value is >= 256
            t, ty = self.expr(args[0], out)
            if ty != USIZE:
                raise ParseError("u8::try_from of a non-usize")
            return "(if N.ltb %s 256 then Some %s else None)" % (t, t), ("result", U8)
        if (owner, name) == ("usize", "from") and len(args) == 1:
            t, ty = self.expr(args[0], out)
            if ty not in (U8, U16):
                raise ParseError("usize::from of %r" % (ty,))
            return t, USIZE
        if owner in TYPE_PARAMS:
            return self.type_param_call(owner, name, args, out)
        if owner == "Self":
            owner = self.owner
        owner = self.gen.alias(self.owner, owner)
        if owner == "Vec" and name == "with_capacity":
            if len(args) != 1 or self.expr(args[0], out)[1] != USIZE:    # evaluated for its effects only
                raise ParseError("Vec::with_capacity takes a usize")
            return "[]", ("vec", None)                                    # allocation is not modelled
        if name == "default" and not args and owner in RECORDS and self.gen.has_default_target(owner):
            return self.call_fn(owner, name, None, args, out)             # a hand-written `impl Default`
        if name == "default" and not args and owner in RECORDS:
            return self.gen.default_term(("struct", owner)), ("struct", owner)
        return self.call_fn(owner, name, None, args, out)

    def resolve(self, owner, name):
        return self.gen.resolve_callee(self.mod, owner, name)

    def call_fn(self, owner, name, recv, args, out, recv_place=None):
        """recv: None (static) or (term, type) already evaluated"""
        how, what, (skind, ptys, rty) = self.resolve(owner, name)
        if how == "gen" and any(d["name"] == what and d.get("kind") for d in self.gen.done.values()):
            raise ParseError("%s::%s depends on the type parameter of its impl block: calls are not supported" % (owner, name))
        if (recv is None) != (skind == "static"):
            raise ParseError("%s::%s: receiver does not match its signature" % (owner, name))
        if len(args) != len(ptys):
            raise ParseError("%s::%s: wrong number of arguments" % (owner, name))
        ats = []
        muts = self.gen.mut_params(owner, name) if how == "gen" else []
        for i, (a, (pn, pty)) in enumerate(zip(args, ptys)):
            if (i in muts) != (a[0] == "refmut"):
                raise ParseError("%s::%s: argument %s: `&mut` does not match the parameter" % (owner, name, pn))
            t, ty = self.expr(a[1] if i in muts else a, out)
            if ty == ("vec", None) and pty[0] == "vec":
                self.refine_vec(a, pty)
                ty = pty
            if ty[0] == "range" and pty == RANGEVAL and not ty[3]:        # `lo..hi` for a Range<usize> parameter
                t, ty = "(%s, %s)" % (ty[1], ty[2]), RANGEVAL
            if ty[0] == "struct" and pty[0] == "vec" and self.gen.iterator_next(ty[1]) is not None:
                nxt, item = self.gen.iterator_next(ty[1])                 # an iterator struct for an IntoIterator
                if item != pty[1]:                                        # parameter: the list of the items it yields
                    raise ParseError("%s::%s: argument %s yields %r, expected %r" % (owner, name, pn, item, pty[1]))
                t, ty = self.bind(out, "iter_collect (%s c) %s" % (nxt, t)), pty
            if t is None or (ty != pty and not (ty[0] == "opt" and ty[1] is None and pty[0] == "opt")):
                raise ParseError("%s::%s: argument %s has type %r, expected %r" % (owner, name, pn, ty, pty))
            ats.append(t)
        allargs = ([recv[0]] if recv is not None else []) + ats
        if muts:                                       # the callee returns the new values of its `&mut` parameters
            if skind != "static" or rty != UNIT or how != "gen":
                raise ParseError("%s::%s: unsupported function with `&mut` parameters" % (owner, name))
            places = [args[i][1] for i in muts]
            if any(pl[0] != "var" or pl[1] not in self.env for pl in places) or \
                    len(set(pl[1] for pl in places)) != len(places):
                raise ParseError("%s::%s: `&mut` arguments must be distinct local variables" % (owner, name))
            for pl in places:
                self.note_assigned(pl[1])
            cns = [self.env[pl[1]][0] for pl in places]
            out.append(("bind", cns[0] if len(cns) == 1 else "'(" + ", ".join(cns) + ")",
                        "%s c %s" % (what, " ".join(allargs))))
            return "tt", UNIT
        if how == "pure":
            if skind == "mut":
                raise ParseError("pure model accessor for a &mut method")
            return what % " ".join(allargs), rty
        callterm = "%s c %s" % (what, " ".join(allargs)) if allargs else "%s c" % what
        if skind == "mut":
            if recv_place is None:
                raise ParseError("%s::%s mutates its receiver, which is not a place" % (owner, name))
            r = self.bind(out, callterm)
            if rty == UNIT:
                self.set_place(recv_place, r, out)
                return "tt", UNIT
            if rty == ("result", UNIT) or rty[0] != "result":
                self.set_place(recv_place, "(fst %s)" % r, out)
                return "(snd %s)" % r, rty
            raise ParseError("%s::%s: unsupported result type of a &mut method" % (owner, name))
        if rty[0] == "result":
            if rty[1] == UNIT:
                raise ParseError("Result<()> of a non-mutating method")
            return self.bind(out, callterm), ("result", rty[1])          # represented as an option
        return self.bind(out, callterm), rty

    def map_collect(self, vec_ast, f, out):
        """v.iter().map(f).collect() into a Vec: `map` (effect-free f) or `map_res` (Base/Res.v), in order"""
        lt, lty = self.expr(vec_ast, out)
        if lty[0] != "vec" or lty[1] is None or lt is None:
            raise ParseError("map(..).collect() over something that is not a vector")
        if f[0] == "path":                                    # a function as the argument of map
            f = ("closure", ["elem_"], ("call", f, [("var", "elem_")]))
        o, t, ty, x = self.closure_body(self.closure_arg(f, 1), lty[1])
        if t is None:
            raise ParseError("unsupported closure value")
        if not o:
            return "(map (fun %s => %s) %s)" % (x, t, lt), ("vec", ty)
        return self.bind(out, "map_res (fun %s =>\n%s\n  ) %s" % (x, indent(self.res_of(o, t), 4), lt)), ("vec", ty)

    def type_param_call(self, owner, name, args, out):
        """`B::build_from_bits(bits, r, s1, s0)`: the dispatch function over the three supported backings; the type
        becomes the explicit parameter `kind_ : bkind` of the generated function"""
        if name != "build_from_bits" or len(args) != 4 or self.kind != "static":
            raise ParseError("unsupported associated function %s::%s" % (owner, name))
        self.gen.backing_dispatch()
        t, ty = self.expr(args[0], out)
        if ty[0] == "struct" and self.gen.iterator_next(ty[1]) is not None:
            nxt, item = self.gen.iterator_next(ty[1])
            if item != BOOL:
                raise ParseError("%s::%s: the iterator yields %r, expected bool" % (owner, name, item))
            t, ty = self.bind(out, "iter_collect (%s c) %s" % (nxt, t)), ("vec", BOOL)
        if ty != ("vec", BOOL) or t is None:
            raise ParseError("%s::%s: unsupported bit stream argument" % (owner, name))
        ats = [t]
        for a in args[1:]:
            bt, bty = self.expr(a, out)
            if bty != BOOL:
                raise ParseError("%s::%s: non-boolean flag" % (owner, name))
            ats.append(bt)
        self.uses_kind = True
        return self.bind(out, "backing_build_from_bits c kind_ %s" % " ".join(ats)), ("result", BACKING)

    def closure_arg(self, e, nparams):
        if e[0] != "closure" or len(e[1]) != nparams:
            raise ParseError("expected a closure with %d parameter(s)" % nparams)
        return e

    def closure_body(self, clo, pty):
        """(out, term, ty, coq name of the parameter) of a one-parameter closure applied under a match"""
        name = clo[1][0]

        def body(o):
            self.env[name] = (coq_ident(name), pty)
            return self.expr(clo[2], o)
        o, t, ty = self.value_block(body)
        return o, t, ty, coq_ident(name)

    def mcall(self, e, out):
        recv_ast, name, args = e[1], e[2], e[3]
        # `<vec place>.last_mut().unwrap()`: a &mut to the last element
        if name in ("unwrap", "expect") and recv_ast[0] == "mcall" and recv_ast[2] == "last_mut":
            place = recv_ast[1]
            vt, vty = self.expr(place, out)
            if vty[0] != "vec" or recv_ast[3]:
                raise ParseError("last_mut() on a non-vector")
            out.append(("bind", "_", "assert_ (negb (N.eqb (lenN %s) 0))" % vt))
            return None, ("alias_last", place)
        if name == "for_each" and len(args) == 1:              # it.for_each(|x| body)  ==  for x in it { body; }
            clo = self.closure_arg(args[0], 1)
            body = clo[2] if clo[2][0] == "block" else ("block", [("expr", clo[2])], None)
            if self.loop_stmt(("for", clo[1][0], recv_ast, body), out):
                raise ParseError("internal: a for loop always falls through")
            return "tt", UNIT
        # v.iter().map(f).collect()  v.into_iter().map(f).collect()  v.iter().sum::<usize>()
        if name == "collect" and not args and recv_ast[0] == "mcall" and recv_ast[2] == "map" and len(recv_ast[3]) == 1 \
                and recv_ast[1][0] == "mcall" and recv_ast[1][2] in ("iter", "into_iter") and not recv_ast[1][3]:
            return self.map_collect(recv_ast[1][1], recv_ast[3][0], out)
        if name == "sum" and not args and recv_ast[0] == "mcall" and recv_ast[2] == "iter" and not recv_ast[3]:
            lt, lty = self.expr(recv_ast[1], out)
            if lty != ("vec", USIZE):
                raise ParseError("sum of something that is not a vector of usize")
            return self.bind(out, "fold_res (fun a_ x_ => add c a_ x_) %s 0" % lt), USIZE    # overflow as for `+`
        rt, rty = self.expr(recv_ast, out)
        k = rty[0]
        if k == "struct" and name == "max" and not args and self.gen.iterator_next(rty[1]) is not None:
            nxt, item = self.gen.iterator_next(rty[1])         # Iterator::max: None for an empty iterator
            if item != USIZE:
                raise ParseError("max of an iterator over %r" % (item,))
            lst = self.bind(out, "iter_collect (%s c) %s" % (nxt, rt))
            return "(list_max_opt %s)" % lst, ("opt", USIZE)
        if k == "struct":
            return self.call_fn(rty[1], name, (rt, rty), args, out, recv_place=recv_ast)
        if k == "backing":
            if name not in BACKING_METHODS or len(args) != len(BACKING_METHODS[name][0]):
                raise ParseError("unsupported method .%s() on a value of the type parameter" % name)
            ats = []
            for a, pty in zip(args, BACKING_METHODS[name][0]):
                t, ty = self.expr(a, out)
                if ty != pty or t is None:
                    raise ParseError(".%s(): argument of type %r, expected %r" % (name, ty, pty))
                ats.append(t)
            self.gen.backing_dispatch()
            return self.bind(out, " ".join(["backing_%s c %s" % (name, rt)] + ats)), BACKING_METHODS[name][1]
        if k == "vec":
            if name == "extend_from_slice" and len(args) == 1:
                t, ty = self.expr(args[0], out)
                if rty[1] is None and ty[0] == "vec" and ty[1] is not None:
                    rty = ty
                    self.refine_vec(recv_ast, rty)
                if ty != rty or t is None:
                    raise ParseError("extend_from_slice of %r onto %r" % (ty, rty))
                self.set_place(recv_ast, "(%s ++ %s)" % (rt, t), out)
                return "tt", UNIT
            if name == "get" and len(args) == 1 and rty[1] == USIZE:
                it, ity = self.expr(args[0], out)
                if ity != USIZE:
                    raise ParseError("non-usize index")
                return "(if N.ltb %s (lenN %s) then Some (nthN %s %s 0) else None)" % (it, rt, rt, it), ("opt", USIZE)
            if name == "len" and not args:
                return "(lenN %s)" % rt, USIZE
            if name == "is_empty" and not args:
                return "(N.eqb (lenN %s) 0)" % rt, BOOL
            if name == "push" and len(args) == 1:
                t, ty = self.expr(args[0], out)
                if ty[0] == "range" and not ty[3]:             # push(a..b): the pair (a, b)
                    t, ty = "(%s, %s)" % (ty[1], ty[2]), RANGEVAL
                if rty[1] is None and t is not None:           # created by `vec![]`
                    rty = ("vec", ty)
                    self.refine_vec(recv_ast, rty)
                if ty != rty[1] or t is None:
                    raise ParseError("push of %r onto %r" % (ty, rty))
                self.set_place(recv_ast, "(%s ++ [%s])" % (rt, t), out)
                return "tt", UNIT
            if name in ("first", "last") and not args and rty[1] is not None:
                return "(%s %s)" % ("hd_error" if name == "first" else "last_opt", rt), ("opt", rty[1])
            if name == "clear" and not args:
                self.set_place(recv_ast, "[]", out)
                return "tt", UNIT
            if name == "shrink_to_fit" and not args:           # capacity is not modelled
                return "tt", UNIT
            raise ParseError("unsupported Vec method .%s()" % name)
        if k == "opt":
            if name in ("unwrap", "expect"):
                if name == "expect" and not (len(args) == 1 and args[0][0] == "str"):
                    raise ParseError("expect takes a string literal")
                if name == "unwrap" and args:
                    raise ParseError("unwrap takes no argument")
                return self.bind(out, "unwrap %s" % rt), rty[1]
            if name in ("as_ref", "copied") and not args:
                return rt, rty
            if name == "unwrap_or" and len(args) == 1:
                d, dty = self.expr(args[0], out)                         # the default is evaluated eagerly
                if dty != rty[1]:
                    raise ParseError("unwrap_or with a default of another type")
                x = self.fresh()
                return "(match %s with Some %s => %s | None => %s end)" % (rt, x, x, d), dty
            if name in ("is_some", "is_none") and not args:
                a, b = ("true", "false") if name == "is_some" else ("false", "true")
                return "(match %s with Some _ => %s | None => %s end)" % (rt, a, b), BOOL
            if name == "map_or" and len(args) == 2:
                d, dty = self.expr(args[0], out)                         # the default is evaluated eagerly
                o, t, ty, x = self.closure_body(self.closure_arg(args[1], 1), rty[1])
                if ty != dty:
                    raise ParseError("map_or branches of different types")
                if not o:
                    return "(match %s with None => %s | Some %s => %s end)" % (rt, d, x, t), ty
                return self.bind(out, match_opt(rt, "Ok %s" % d, x, self.res_of(o, t))), ty
            if name == "filter" and len(args) == 1:
                o, t, ty, x = self.closure_body(self.closure_arg(args[0], 1), rty[1])
                if ty != BOOL:
                    raise ParseError("filter with a non-boolean closure")
                keep = "(if %s then Some %s else None)" % (t, x)
                if not o:
                    return "(match %s with None => None | Some %s => %s end)" % (rt, x, keep), rty
                return self.bind(out, match_opt(rt, "Ok None", x, self.res_of(o, keep))), rty
            if name == "map" and len(args) == 1:
                o, t, ty, x = self.closure_body(self.closure_arg(args[0], 1), rty[1])
                if not o:
                    return "(match %s with None => None | Some %s => Some %s end)" % (rt, x, t), ("opt", ty)
                return self.bind(out, match_opt(rt, "Ok None", x, self.res_of(o, "(Some %s)" % t))), ("opt", ty)
            if name == "and_then" and len(args) == 1:
                o, t, ty, x = self.closure_body(self.closure_arg(args[0], 1), rty[1])
                if ty[0] != "opt":
                    raise ParseError("and_then with a closure that does not return an Option")
                if not o:
                    return "(match %s with None => None | Some %s => %s end)" % (rt, x, t), ty
                return self.bind(out, match_opt(rt, "Ok None", x, self.res_of(o, t))), ty
            if name == "ok_or_else" and len(args) == 1:                  # Option -> Result (an Err is "rejected" = None)
                clo = self.closure_arg(args[0], 0)
                err = clo[2]
                if err[0] == "block" and not err[1] and err[2] is not None:
                    err = err[2]
                self.check_error_value(err)
                return rt, ("result", rty[1])
            raise ParseError("unsupported Option method .%s()" % name)
        if k == "result":
            if name in ("unwrap", "expect"):
                if rty[1] == UNIT:
                    out.append(("bind", "_", "assert_ %s" % rt))
                    return "tt", UNIT
                return self.bind(out, "unwrap %s" % rt), rty[1]
            raise ParseError("unsupported Result method .%s()" % name)
        if k == "bool" and name == "then" and len(args) == 1:
            clo = self.closure_arg(args[0], 0)
            o, t, ty = self.value_block(lambda o: self.expr(clo[2], o))
            if not o:
                return "(if %s then Some %s else None)" % (rt, t), ("opt", ty)
            return self.bind(out, ite(rt, self.res_of(o, "(Some %s)" % t), "Ok None")), ("opt", ty)
        if k == "usize":
            ats = [self.expr(a, out) for a in args]
            if name == "wrapping_shl" and len(ats) == 1 and ats[0][1] == ("u32",):
                return "(wshl %s %s)" % (rt, ats[0][0]), USIZE
            if any(ty != USIZE for _, ty in ats):
                raise ParseError(".%s() with a non-usize argument" % name)
            if name == "checked_add" and len(ats) == 1:
                return "(checked_add %s %s)" % (rt, ats[0][0]), ("opt", USIZE)
            if name == "saturating_add" and len(ats) == 1:
                return "(N.min (%s + %s) MASK64)" % (rt, ats[0][0]), USIZE
            if name == "max" and len(ats) == 1:
                return "(N.max %s %s)" % (rt, ats[0][0]), USIZE
            if name == "min" and len(ats) == 1:
                return "(N.min %s %s)" % (rt, ats[0][0]), USIZE
            if name == "to_usize" and not ats:                           # ToPrimitive::to_usize at T = usize
                return "(Some %s)" % rt, ("opt", USIZE)
            if name in ("wrapping_mul", "wrapping_shl") and len(ats) == 1:
                return "(%s %s %s)" % (METHODS[name][0], rt, ats[0][0]), USIZE
            raise ParseError("unsupported usize method .%s()" % name)
        if k == "range":
            if name == "contains" and len(args) == 1:
                t, ty = self.expr(args[0], out)
                if ty != USIZE:
                    raise ParseError("contains on a non-usize")
                hi = "N.leb %s %s" % (t, rty[2]) if rty[3] else "N.ltb %s %s" % (t, rty[2])
                return "(andb (N.leb %s %s) (%s))" % (rty[1], t, hi), BOOL
            if name == "fold" and len(args) == 2 and not rty[3]:         # (a..b).fold(init, |acc, i| e)
                init, ity = self.expr(args[0], out)
                clo = self.closure_arg(args[1], 2)
                acc, i = clo[1]

                def body(o):
                    self.env[acc] = (coq_ident(acc), ity)
                    self.env[i] = (coq_ident(i), USIZE)
                    return self.expr(clo[2], o)
                o, t, ty = self.value_block(body)
                if ty != ity or init is None:
                    raise ParseError("fold whose closure does not return the type of the initial value")
                return self.bind(out, "fold_res (fun %s %s =>\n%s\n  ) (nrange %s %s) %s" % (
                    coq_ident(acc), coq_ident(i), indent(self.res_of(o, t), 4), rty[1], rty[2], init)), ity
            if name == "len" and not args and not rty[3]:              # ExactSizeIterator::len of a..b
                return "(if N.leb %s %s then %s - %s else 0)" % (rty[1], rty[2], rty[2], rty[1]), USIZE
            raise ParseError("unsupported range method .%s()" % name)
        if k == "rangeval":
            if name == "len" and not args:
                return "(if N.leb (fst %s) (snd %s) then (snd %s) - (fst %s) else 0)" % (rt, rt, rt, rt), USIZE
            if name == "is_empty" and not args:
                return "(N.leb (snd %s) (fst %s))" % (rt, rt), BOOL
            raise ParseError("unsupported Range method .%s()" % name)
        raise ParseError("method .%s() on %r" % (name, rty))

    # -- statements --------------------------------------------------------------------------------
    def stmts(self, stmts, out):
        """returns True when the statement list ended with `return` (out then ends with the ("final", term) marker)"""
        for i, s in enumerate(stmts):
            if self.stmt(s, out):
                if i != len(stmts) - 1:
                    raise ParseError("code after return")
                return True
        return False

    def declare(self, name, term, ty, out):
        if name in self.mutparams:
            raise ParseError("`let %s` shadows a `&mut` parameter" % name)
        cname = coq_ident(name)
        self.env[name] = (cname, ty)
        self.declared[-1].add(name)
        last = out[-1] if out else None
        if last and last[0] == "bind" and last[1] == term and re.fullmatch(r"t\d+", term):
            out[-1] = ("bind", cname, last[2])
        else:
            out.append(("let", cname, term))

    def stmt(self, s, out):
        k = s[0]
        if k == "let" and s[3][0] == "if" and s[3][3] is not None and self.contains_loop(s[3]):
            self.let_if_join(s[1], s[3], out)
            return False
        if k == "let":
            t, ty = self.expr(s[3], out)
            if ty[0] == "alias_last":
                self.env[s[1]] = (None, ty)
                return False
            if ty[0] == "fn":                                     # let w = Self::f;
                self.env[s[1]] = (None, ty)
                self.declared[-1].add(s[1])
                return False
            if ty[0] == "fnsel":                                  # let w = if b { Self::f } else { Self::g };
                sel = self.fresh()                                # the selecting boolean, under a name never rebound
                out.append(("let", sel, ty[1]))
                self.env[s[1]] = (None, ("fnsel", sel, ty[2], ty[3]))
                self.declared[-1].add(s[1])
                return False
            if ty[0] == "range" or t is None:
                raise ParseError("unsupported let")
            self.declare(s[1], t, ty, out)
            return False
        if k == "lettuple" and s[2][0] != "tuple":                # let (a, b) = <expression of a tuple type>;
            t, ty = self.expr(s[2], out)
            if t is None or ty[0] != "tuple" or len(ty[1]) != len(s[1]) or len(set(s[1])) != len(s[1]):
                raise ParseError("tuple pattern needs a value of a tuple type of the same length")
            for n in s[1]:
                if n in self.mutparams:
                    raise ParseError("`let %s` shadows a `&mut` parameter" % n)
            out.append(("let", "'(%s)" % ", ".join(coq_ident(n) for n in s[1]), t))
            for n, nty in zip(s[1], ty[1]):
                self.env[n] = (coq_ident(n), nty)
                self.declared[-1].add(n)
            return False
        if k == "lettuple":
            if s[2][0] != "tuple" or len(s[2][1]) != len(s[1]):
                raise ParseError("tuple pattern needs a tuple literal of the same length")
            vals = [self.expr(x, out) for x in s[2][1]]          # all components first, then the bindings
            for i, n in enumerate(s[1]):
                for t, _ in vals[i + 1:]:
                    if re.search(r"\b%s\b" % re.escape(coq_ident(n)), t):
                        raise ParseError("tuple pattern rebinds `%s`, which a later component uses" % n)
            for n, (t, ty) in zip(s[1], vals):
                self.declare(n, t, ty, out)
            return False
        if k == "assign":
            t, ty = self.expr(s[3], out)                          # right operand first
            if s[2] is not None:
                cn, vty = self.env.get(s[1], (None, None))
                if cn is None:
                    raise ParseError("assignment to unknown variable %s" % s[1])
                t, ty = self.apply_op(s[2], cn, vty, t, ty, s[3], out)
            self.assign_var(s[1], t, out)
            return False
        if k == "assignp":
            self.assign_place(s[1], s[2], s[3], out)
            return False
        if k == "return":
            out[:] = [("final", self.result(s[1], out))]          # result() has consumed the bindings of out
            return True
        if k == "panic":                                          # panic!(".."): the message is dropped
            out[:] = [("final", render(out, "Panic"))]
            return True
        if k == "break":
            if not self.loops or self.loops[-1]["brk"] is None:
                raise ParseError("`break` outside a loop")
            if self.value_scope or self.join_scope:
                raise ParseError("break inside a conditional expression or a joined if/else")
            self.loops[-1]["left"] = True
            out[:] = [("final", render(out, self.loops[-1]["brk"]))]
            return True
        if k == "continue":                                       # the next iteration: the step ends with the state
            if not self.loops:
                raise ParseError("`continue` outside a loop")
            if self.value_scope or self.join_scope:
                raise ParseError("continue inside a conditional expression or a joined if/else")
            out[:] = [("final", render(out, self.loops[-1]["cont"]))]
            return True
        if k == "expr":
            e = s[1]
            if e[0] == "macro":
                self.assert_macro(e, out)
                return False
            if e[0] in ("if", "iflet"):
                return self.if_stmt(e, out)
            if e[0] in ("for", "while", "whilelet", "loop"):
                return self.loop_stmt(e, out)
            if e[0] == "block":
                raise ParseError("nested block statement")
            self.expr(e, out)                                     # evaluated for its effects
            return False
        raise ParseError("unsupported statement kind %s" % k)

    def assert_macro(self, e, out):
        if e[1] in ("assert_eq", "assert_ne", "debug_assert_eq", "debug_assert_ne") and len(e[2]) == 2:
            cmp_ = ("bin", "==" if e[1].endswith("_eq") else "!=", e[2][0], e[2][1])    # left operand first, as the macro
            e = ("macro", "debug_assert" if e[1].startswith("debug_") else "assert", [cmp_])
        if e[1] not in ("debug_assert", "assert") or not e[2]:
            raise ParseError("unsupported macro %s!" % e[1])
        o, cond, cty = self.value_block(lambda o: self.expr(e[2][0], o))
        if cty != BOOL:
            raise ParseError("%s! of a non-boolean" % e[1])
        if e[1] == "assert":
            out.extend(o)
            out.append(("bind", "_", "assert_ %s" % cond))
        elif not o:
            out.append(("bind", "_", "dassert c %s" % cond))
        else:                                                     # the condition is not evaluated in release builds
            out.append(("bind", "_", "if dbg c then (%s) else Ok tt" % render(o, "assert_ %s" % cond)))

    def assign_place(self, lhs, op, rhs, out):
        if op is not None and op not in BITOPS and op not in ARITH:
            raise ParseError("unsupported compound assignment %s=" % op)
        t, ty = self.expr(rhs, out)                               # right operand first (primitive operands)
        if lhs[0] == "un" and lhs[1] == "*" and lhs[2][0] in ("var", "mcall"):
            if lhs[2][0] == "var":
                alias = self.env.get(lhs[2][1], (None, ("none",)))[1]
            else:                                                 # *v.last_mut().unwrap() op= e
                alias = self.expr(lhs[2], out)[1]
            if alias[0] != "alias_last" or ty != USIZE:
                raise ParseError("unsupported assignment through a reference")
            if op is None:
                f = "(fun _ => %s)" % t
            elif op in BITOPS:
                f = "(fun w => %s w %s)" % (BITOPS[op], t)
            else:
                raise ParseError("checked arithmetic through a reference")
            vt, _ = self.expr(alias[1], [])
            return self.set_place(alias[1], "(upd_last %s %s)" % (f, vt), out)
        if lhs[0] == "index":
            scratch = []
            vt, vty = self.expr(lhs[1], scratch)
            if scratch and lhs[1][0] == "index":              # m[j][r] = e: the row m[j] is read (bounds check) first
                out.extend(scratch)
                scratch = []
            if scratch or vt is None or vty[0] != "vec" or vty[1] != ty or (op is not None and ty != USIZE) or t is None:
                raise ParseError("unsupported indexed assignment")
            it, ity = self.expr(lhs[2], out)
            if ity != USIZE:
                raise ParseError("non-usize index")
            if op is None:
                out.append(("bind", "_", "idx %s %s %s" % (self.dummy(ty), vt, it)))
                new = t
            else:
                old = self.bind(out, "idx 0 %s %s" % (vt, it))
                new, _ = self.apply_op(op, old, USIZE, t, USIZE, rhs, out)
            return self.set_place(lhs[1], "(setN %s %s %s)" % (vt, it, new), out)
        if lhs[0] == "field":
            if op is not None:
                cur, cty = self.expr(lhs, out)
                t, ty = self.apply_op(op, cur, cty, t, ty, rhs, out)
            return self.set_place(lhs, t, out)
        raise ParseError("unsupported assignment target")

    @staticmethod
    def ends_with_return(block):
        return bool(block[1]) and block[1][-1][0] in ("return", "break", "continue", "panic") and block[2] is None

    @classmethod
    def contains_return(cls, node, brk=True):
        """does node contain `return` / `?` (anywhere) or, with brk, a `break` of the enclosing loop"""
        if isinstance(node, tuple):
            if node and (node[0] in ("return", "try") or (brk and node[0] in ("break", "continue"))):
                return True
            if node and node[0] in ("for", "while", "whilelet", "loop"):
                brk = False                                       # a `break` in there leaves the inner loop
            return any(cls.contains_return(x, brk) for x in node)
        if isinstance(node, list):
            return any(cls.contains_return(x, brk) for x in node)
        return False

    @classmethod
    def mentions(cls, node, name):
        if isinstance(node, tuple):
            return node == ("var", name) or any(cls.mentions(x, name) for x in node)
        if isinstance(node, list):
            return any(cls.mentions(x, name) for x in node)
        return False

    def inj(self, value):
        """the value of a `return`, injected into the result of the enclosing loop step"""
        return value if self.ret_wrap is None else self.ret_wrap % value

    def fin(self, out, value):
        return render(out, "Ok %s" % self.inj(value))

    def fin_res(self, out, t):
        return self.res_of(out, t) if self.ret_wrap is None else self.fin(out, t)

    def inline_block(self, blk, out, allow=()):
        """the statements of a block that is entered unconditionally at this point (the else part of a jumping
        `if`); True if it ends with a jump.  allow: names that may be shadowed (the pattern variables of a loop body)"""
        for st in blk[1]:
            for n in ([st[1]] if st[0] == "let" else st[1] if st[0] == "lettuple" else []):
                if n in self.env and n not in allow:
                    raise ParseError("block-local `%s` shadows an outer variable" % n)
        if self.stmts(blk[1], out):
            if blk[2] is not None:
                raise ParseError("code after return")
            return True
        tail = blk[2]
        if tail is None:
            return False
        if tail[0] in ("if", "iflet"):
            return self.if_stmt(tail, out)
        if tail[0] in ("for", "while", "whilelet", "loop"):
            return self.loop_stmt(tail, out)
        t, ty = self.expr(tail, out)
        if ty != UNIT:
            raise ParseError("value of an if statement is dropped")
        return False

    def jump_branch(self, blk):
        """term of a branch that ends with return / break; inside a loop the variables it assigns belong to the
        loop state (they are observable at the `break`)"""
        (term, a, _) = self.scoped(lambda: self.body_term(blk[1], None))
        if self.loops:
            for n in a:
                if n not in self.declared[-1]:
                    self.assigned[-1].add(n)
        return term

    def if_stmt(self, e, out):
        """`if` in statement position; returns True if both branches return"""
        if e[0] == "iflet":
            return self.iflet_stmt(e, out)
        cond, cty = self.expr(e[1], out)
        if cty != BOOL:
            raise ParseError("non-boolean condition")
        then, els = e[2], e[3]
        if els is not None and els[0] == "block" and not els[1] and els[2] is not None and els[2][0] in ("if", "iflet"):
            els = ("block", [("expr", els[2])], None)            # else if
        if self.ends_with_return(then) and els is None:
            if self.value_scope or self.join_scope:
                raise ParseError("return inside a conditional expression or a joined if/else")
            out.append(("ifret", cond, self.jump_branch(then)))
            return False
        if self.contains_return(then) or self.contains_return(els):
            if els is not None and self.ends_with_return(then) and self.ends_with_return(els) \
                    and not (self.value_scope or self.join_scope):
                t1 = self.jump_branch(then)
                t2 = self.jump_branch(els)
                out[:] = [("final", render(out, ite(cond, t1, t2)))]
                return True
            if els is not None and self.ends_with_return(then) and not (self.value_scope or self.join_scope):
                out.append(("ifret", cond, self.jump_branch(then)))       # the else part continues with the rest
                return self.inline_block(els, out)
            if els is None and not self.contains_break(then) and not (self.value_scope or self.join_scope):
                return self.if_exit_join(cond, then, out)
            raise ParseError("unsupported control flow (return / ? inside one branch of an if/else)")
        # join: neither branch returns
        self.join_scope += 1
        try:
            locals_ = set()

            def branch(blk):
                o = []
                if blk is not None:
                    self.stmts(blk[1], o)
                    if blk[2] is not None:
                        if blk[2][0] in ("if", "iflet"):
                            self.if_stmt(blk[2], o)
                        elif blk[2][0] in LOOP_KINDS:
                            self.loop_stmt(blk[2], o)
                        else:
                            t, ty = self.expr(blk[2], o)
                            if ty != UNIT:
                                raise ParseError("value of an if statement is dropped")
                locals_.update(self.declared[-1])
                return o
            outer = dict(self.env)
            (o1, a1, env1) = self.scoped(lambda: branch(then))
            (o2, a2, env2) = self.scoped(lambda: branch(els))
        finally:
            self.join_scope -= 1
        names = sorted(n for n in (a1 | a2) if n in outer)
        if self.value_scope and names:
            raise ParseError("assignment inside a conditional expression")
        self.check_join_shadow(names, locals_)

        def tail(env):
            vals = [env[n][0] for n in names]
            if not vals:
                return "Ok tt"
            return "Ok %s" % (vals[0] if len(vals) == 1 else "(" + ", ".join(vals) + ")")
        t1, t2 = render(o1, tail(env1)), render(o2, tail(env2))
        cnames = [outer[n][0] for n in names]
        pat = "_" if not cnames else cnames[0] if len(cnames) == 1 else "'(" + ", ".join(cnames) + ")"
        out.append(("bind", pat, ite(cond, t1, t2)))
        for n in names:
            if n not in self.declared[-1]:
                self.assigned[-1].add(n)
        return False

    def if_exit_join(self, cond, then, out):
        """`if c { ..; e?; .. }` (no else, no break) whose block can return but also falls through: the block yields
        `inr v` (return v) or `inl vars` (the variables it assigns); the return is re-injected after the join"""
        saved_wrap, self.ret_wrap = self.ret_wrap, "(inr %s)"
        outer = dict(self.env)
        locals_ = set()
        try:
            def branch():
                o = []
                if self.inline_block(then, o):
                    raise ParseError("internal: a block that falls through ended with a jump")
                locals_.update(self.declared[-1])
                return o
            (o1, a1, env1) = self.scoped(branch)
        finally:
            self.ret_wrap = saved_wrap
        names = sorted(n for n in a1 if n in outer)
        self.check_join_shadow(names, locals_)
        cn = [outer[n][0] for n in names]
        t1 = render(o1, "Ok (inl %s)" % (self.tuple_term([env1[n][0] for n in names]) if names else "tt"))
        t2 = "Ok (inl %s)" % (self.tuple_term(cn) if names else "tt")
        out.append(("bindret", self.tuple_term(cn) if names else "_", ite(cond, t1, t2), self.fresh(), self.inj("v_")))
        for n in names:
            if n not in self.declared[-1]:
                self.assigned[-1].add(n)
        return False

    @staticmethod
    def check_join_shadow(names, locals_):
        """a variable joined after an if/else must not be shadowed by a `let` of a branch (the Coq name would be captured)"""
        for n in names:
            if n in locals_:
                raise ParseError("branch-local `%s` shadows a variable assigned in the other branch" % n)

    @staticmethod
    def tuple_term(vals):
        return vals[0] if len(vals) == 1 else "(" + ", ".join(vals) + ")"

    def let_if_join(self, name, e, out):
        """`let x = if c { stmts; v1 } else { stmts; v2 };` whose branches contain loops: a join of the value and of
        the outer variables assigned in either branch"""
        if self.value_scope:
            raise ParseError("loop inside a conditional expression")
        if self.contains_return(e[2]) or self.contains_return(e[3]):
            raise ParseError("return / ? / break inside a conditional value")
        cond, cty = self.expr(e[1], out)
        if cty != BOOL:
            raise ParseError("non-boolean condition")
        locals_ = set()
        self.join_scope += 1
        try:
            def branch(blk):
                o = []
                if self.stmts(blk[1], o) or blk[2] is None:
                    raise ParseError("block without value")
                t, ty = self.expr(blk[2], o)
                if t is None:
                    raise ParseError("unsupported conditional value")
                locals_.update(self.declared[-1])
                return o, t, ty
            outer = dict(self.env)
            ((o1, t1, ty1), a1, env1) = self.scoped(lambda: branch(e[2]))
            ((o2, t2, ty2), a2, env2) = self.scoped(lambda: branch(e[3]))
        finally:
            self.join_scope -= 1
        if ty1 == ("opt", None) and ty2[0] == "opt":
            ty1 = ty2
        if ty2 == ("opt", None) and ty1[0] == "opt":
            ty2 = ty1
        if ty1 != ty2:
            raise ParseError("branches of different types")
        names = sorted(n for n in (a1 | a2) if n in outer)
        self.check_join_shadow(names, locals_)
        cname = coq_ident(name)
        cnames = [cname] + [outer[n][0] for n in names]
        if len(set(cnames)) != len(cnames):
            raise ParseError("`%s` is also assigned inside its own initialiser" % name)
        b1 = render(o1, "Ok %s" % self.tuple_term([t1] + [env1[n][0] for n in names]))
        b2 = render(o2, "Ok %s" % self.tuple_term([t2] + [env2[n][0] for n in names]))
        out.append(("bind", cname if len(cnames) == 1 else "'(" + ", ".join(cnames) + ")", ite(cond, b1, b2)))
        self.env[name] = (cname, ty1)
        self.declared[-1].add(name)
        for n in names:
            if n not in self.declared[-1]:
                self.assigned[-1].add(n)

    def iflet_join(self, e, t, ty, out):
        """`if let Some(x) = e { .. } [else { .. }]` without return / break: a join like if/else"""
        _, name, scrut, then, els = e
        x = coq_ident(name)
        locals_ = set()
        self.join_scope += 1
        try:
            def branch(blk, some):
                o = []
                if some:
                    self.env[name] = (x, ty[1])
                    self.declared[-1].add(name)
                if blk is not None:
                    self.stmts(blk[1], o)
                    if blk[2] is not None:
                        if blk[2][0] in ("if", "iflet"):
                            self.if_stmt(blk[2], o)
                        elif blk[2][0] in LOOP_KINDS:
                            self.loop_stmt(blk[2], o)
                        else:
                            v, vty = self.expr(blk[2], o)
                            if vty != UNIT:
                                raise ParseError("value of an if statement is dropped")
                locals_.update(self.declared[-1])
                return o
            outer = dict(self.env)
            (o1, a1, env1) = self.scoped(lambda: branch(then, True))
            (o2, a2, env2) = self.scoped(lambda: branch(els, False))
        finally:
            self.join_scope -= 1
        names = sorted(n for n in (a1 | a2) if n in outer)
        if self.value_scope and names:
            raise ParseError("assignment inside a conditional expression")
        self.check_join_shadow(names, locals_)
        cnames = [outer[n][0] for n in names]

        def tail(env):
            return "Ok %s" % (self.tuple_term([env[n][0] for n in names]) if names else "tt")
        pat = "_" if not cnames else cnames[0] if len(cnames) == 1 else "'(" + ", ".join(cnames) + ")"
        out.append(("bind", pat, "match %s with\n| Some %s =>\n%s\n| None =>\n%s\nend" % (
            t, x, indent(render(o1, tail(env1)), 4), indent(render(o2, tail(env2)), 4))))
        for n in names:
            if n not in self.declared[-1]:
                self.assigned[-1].add(n)
        return False

    def iflet_stmt(self, e, out):
        """`if let Some(x) = e { ..; return / break } [else { .. }]`: the else part continues with the rest;
        without return / break in either branch: a join (iflet_join)"""
        _, name, scrut, then, els = e
        t, ty = self.expr(scrut, out)
        if ty[0] != "opt" or ty[1] is None:
            raise ParseError("`if let Some(..)` on a non-Option")
        if not self.contains_return(then) and not self.contains_return(els):
            return self.iflet_join(e, t, ty, out)
        if not self.ends_with_return(then) or self.value_scope or self.join_scope:
            raise ParseError("`if let` is only supported when its block ends with return / break")
        if els is not None and els[0] == "block" and not els[1] and els[2] is not None and els[2][0] in ("if", "iflet"):
            els = ("block", [("expr", els[2])], None)            # else if
        x = coq_ident(name)

        def branch():
            self.env[name] = (x, ty[1])
            self.declared[-1].add(name)
            return self.body_term(then[1], None)
        (term, a, _) = self.scoped(branch)
        if self.loops:
            for n in a:
                if n not in self.declared[-1]:
                    self.assigned[-1].add(n)
        out.append(("matchsome", t, x, term))
        return self.inline_block(els, out) if els is not None else False

    # -- loops -----------------------------------------------------------------------------------
    #  state  = the outer variables (and `self`) assigned in the body, in alphabetical order
    #  for x in <list> (no break / return)    S <- fold_res (fun S x => body ;; Ok S) list S ;;
    #  for with break                         S <- rmap either (fold_res_brk (fun S x => ..) list S) ;;
    #      continue = Ok (inl S), break = Ok (inr S)
    #  for with return [and break]            t <- rmap brk_join (fold_res_brk ..) ;; match t with inr v_ => Ok v_ | inl S => rest
    #      continue = Ok (inl S), break = Ok (inr (inl S)), return v = Ok (inr (inr v))
    #  while / while let / loop:  the same three shapes over `loopN W (fun S => ..) S`; a false condition (a `None`)
    #      is a break; a `loop` without `break` cannot fall through: return v = Ok (inr v) and the loop is the result
    def iter_list(self, e, out):
        """the list a `for` loop runs over (evaluated once, before the loop)"""
        if e[0] == "mcall" and e[2] == "enumerate" and not e[3] and e[1][0] == "mcall" and e[1][2] == "iter" and not e[1][3]:
            t, ty = self.iter_list(e[1][1], out)               # v.iter().enumerate(): the pairs (index, element)
            return "(enumerate %s)" % t, ("tuple", [USIZE, ty])
        if e[0] == "mcall" and e[2] == "rev" and not e[3] and e[1][0] == "bin" and e[1][1] == "..":
            t, ty = self.iter_list(e[1], out)                  # (a..b).rev()
            return "(rev %s)" % t, ty
        if e[0] == "bin" and e[1] == "..=":                    # a..=b
            a, aty = self.expr(e[2], out)
            b, bty = self.expr(e[3], out)
            if aty != USIZE or bty != USIZE:
                raise ParseError("range over non-usize")
            return "(nrange_incl %s %s)" % (a, b), USIZE
        while e[0] == "ref" or (e[0] == "mcall" and e[2] in ("iter", "into_iter") and not e[3]):
            e = e[1]
        if e[0] == "mcall" and e[2] == "step_by" and len(e[3]) == 1 and e[1][0] == "bin" and e[1][1] == "..":
            a, aty = self.expr(e[1][2], out)                   # (a..b).step_by(s): a, a+s, .. below b
            b, bty = self.expr(e[1][3], out)
            st, sty = self.expr(e[3][0], out)
            if aty != USIZE or bty != USIZE or sty != USIZE:
                raise ParseError("range over non-usize")
            if not self.const_value(e[3][0]):                  # step_by(0) panics when the iterator is created
                out.append(("bind", "_", "assert_ (negb (N.eqb %s 0))" % st))
            return "(nrange_by %s %s %s)" % (a, b, st), USIZE
        if e[0] == "bin" and e[1] == "..":
            a, aty = self.expr(e[2], out)
            b, bty = self.expr(e[3], out)
            if aty != USIZE or bty != USIZE:
                raise ParseError("range over non-usize")
            return "(nrange %s %s)" % (a, b), USIZE
        t, ty = self.expr(e, out)
        if ty[0] != "vec" or ty[1] is None:
            raise ParseError("`for` over something that is not a vector, a slice or a range")
        return t, ty[1]

    def struct_iterator(self, e, out):
        """`for x in e` where e is an iterator struct with a translated `Iterator::next`: bind it to a hidden local
        variable (part of the loop state, as `next` takes `&mut self`) and return its name; None for anything else"""
        probe = e
        while probe[0] == "ref":
            probe = probe[1]
        if not (probe[0] == "mcall" or probe[0] == "call" or (probe[0] == "var" and probe[1] in self.env)):
            return None
        if probe[0] == "mcall" and probe[2] in ("iter", "into_iter", "step_by", "rev", "enumerate"):
            scratch = []
            try:
                rty = self.expr(probe[1], scratch)[1]
            except ParseError:
                return None
            if rty[0] != "struct":
                return None                                    # v.iter() on a vector / slice, (a..b).step_by(s)
        saved = self.counter
        scratch = []
        t, ty = self.expr(probe, scratch)
        if ty[0] != "struct" or self.gen.iterator_next(ty[1]) is None:
            self.counter = saved
            return None
        out.extend(scratch)
        self.loop_ids += 1
        hidden, cname = "@iter%d" % self.loop_ids, "it%d_" % self.loop_ids
        if any(cn == cname for cn, _ in self.env.values()):
            raise ParseError("the name %s is taken" % cname)
        self.env[hidden] = (cname, ty)
        self.declared[-1].add(hidden)
        last = out[-1] if out else None
        if last and last[0] == "bind" and last[1] == t and re.fullmatch(r"t\d+", t):
            out[-1] = ("bind", cname, last[2])
        else:
            out.append(("let", cname, t))
        return hidden

    def loop_stmt(self, node, out):
        """for / while / while let / loop in statement position; True if the loop cannot fall through"""
        kind, body = node[0], node[-1]
        if self.value_scope:
            raise ParseError("loop inside a conditional expression")
        if kind == "for":
            it = self.struct_iterator(node[2], out)
            if it is not None:           # for x in <iterator struct>  ==  while let Some(x) = it.next()
                return self.loop_stmt(("whilelet", node[1] if node[1] is not None else "_",
                                       ("mcall", ("var", it), "next", []), body), out)
        has_ret = self.contains_return(body, brk=False)
        has_brk = kind in ("while", "whilelet") or self.contains_break(body)
        if has_ret and self.join_scope:
            raise ParseError("return inside a loop inside a joined if/else")
        falls = kind != "loop" or has_brk
        self.loop_ids += 1
        ph = "@STATE%d@" % self.loop_ids
        if kind == "for":
            lst, elty = self.iter_list(node[2], out)
        if not has_ret:
            cont, brk, wrap = ("Ok %s" % ph, None, None) if kind == "for" and not has_brk else \
                ("Ok (inl %s)" % ph, "Ok (inr %s)" % ph, None)
        elif falls:
            cont, brk, wrap = "Ok (inl %s)" % ph, "Ok (inr (inl %s))" % ph, "(inr (inr %s))"
        else:
            cont, brk, wrap = "Ok (inl %s)" % ph, None, "(inr %s)"
        ctx = dict(brk=brk, cont=cont, left=False, declared=set())
        saved_wrap = self.ret_wrap
        self.loops.append(ctx)
        if has_ret:
            if saved_wrap is not None:
                raise ParseError("return inside a nested loop")
            self.ret_wrap = wrap
        outer = dict(self.env)
        saved_join = self.join_scope
        if not has_ret:
            self.join_scope = 0        # a `break` in the body leaves this loop, not the if/else the loop stands in

        def run_body():
            o = []
            if kind == "while":
                cond, cty = self.expr(node[1], o)
                if cty != BOOL:
                    raise ParseError("non-boolean loop condition")
                o.append(("ifelse", cond, brk))
            elif kind == "whilelet":
                t, ty = self.expr(node[2], o)
                if ty[0] != "opt" or ty[1] is None:
                    raise ParseError("`while let Some(..)` on a non-Option")
                self.env[node[1]] = (coq_ident(node[1]), ty[1])
                self.declared[-1].add(node[1])
                o.append(("try", t, coq_ident(node[1]), brk))
            elif kind == "for" and isinstance(node[1], tuple):
                if elty[0] != "tuple" or len(elty[1]) != len(node[1]):
                    raise ParseError("tuple pattern over elements of type %r" % (elty,))
                for n, nty in zip(node[1], elty[1]):
                    self.env[n] = (coq_ident(n), nty)
                    self.declared[-1].add(n)
            elif kind == "for" and node[1] is not None:
                self.env[node[1]] = (coq_ident(node[1]), elty)
                self.declared[-1].add(node[1])
            try:
                if self.inline_block(body, o, allow=set(self.declared[-1])):
                    return o.pop()[1]
                return render(o, cont)
            finally:
                ctx["declared"] = set(self.declared[-1])
        try:
            (term, assigned, _) = self.scoped(run_body)
        finally:
            self.loops.pop()
            self.ret_wrap = saved_wrap
            self.join_scope = saved_join
        names = sorted(n for n in assigned if n in outer)
        for n in names:
            if n in ctx["declared"]:
                raise ParseError("loop-local `%s` shadows a variable of the loop state" % n)
        cn = [outer[n][0] for n in names]
        state = "tt" if not cn else cn[0] if len(cn) == 1 else "(" + ", ".join(cn) + ")"
        bpat = "_" if not cn else cn[0] if len(cn) == 1 else "'(" + ", ".join(cn) + ")"
        mpat = "_" if not cn else state
        term = term.replace(ph, state)
        if kind == "for":
            x = "_" if node[1] is None else "'(%s)" % ", ".join(coq_ident(n) for n in node[1]) \
                if isinstance(node[1], tuple) else coq_ident(node[1])
            comb = "fold_res" if cont.startswith("Ok @") else "fold_res_brk"
            loop = "%s (fun %s %s =>\n%s\n  ) %s %s" % (comb, bpat, x, indent(term, 4), lst, state)
            if comb == "fold_res_brk":
                loop = "rmap %s (%s)" % ("brk_join" if has_ret else "either", loop.replace("\n", "\n  "))
        else:
            loop = "loopN W (fun %s =>\n%s\n  ) %s" % (bpat, indent(term, 4), state)
        for n in names:
            if n not in self.declared[-1]:
                self.assigned[-1].add(n)
        if has_ret and not falls:
            out[:] = [("final", render(out, loop))]
            return True
        if has_ret:
            out.append(("bindret", mpat, loop, self.fresh()))
        else:
            out.append(("bind", bpat, loop))
        return False

    @classmethod
    def contains_loop(cls, node):
        if isinstance(node, tuple):
            if node and node[0] in LOOP_KINDS:
                return True
            return any(cls.contains_loop(x) for x in node)
        if isinstance(node, list):
            return any(cls.contains_loop(x) for x in node)
        return False

    @classmethod
    def contains_break(cls, node):
        if isinstance(node, tuple):
            if node and node[0] == "break":
                return True
            if node and node[0] in ("for", "while", "whilelet", "loop"):
                return False
            return any(cls.contains_break(x) for x in node)
        if isinstance(node, list):
            return any(cls.contains_break(x) for x in node)
        return False

    # -- results ---------------------------------------------------------------------------------
    def check_error_value(self, e):
        """Err(anyhow!(fmt, args..)): the arguments must be effect free; they are dropped"""
        if e[0] != "macro" or e[1] != "anyhow" or not e[2] or e[2][0][0] != "str":
            raise ParseError("error values must be anyhow!(\"..\", ..)")
        for a in e[2][1:]:
            o, t, ty = self.value_block(lambda o: self.expr(a, o))
            for it in o:
                m = re.match(r"([A-Za-z_0-9]+) c ", it[2]) if it[0] == "bind" else None
                if not (m and any(d["name"] == m.group(1) and d["pure"] for d in self.gen.done.values())):
                    raise ParseError("argument of an error message has effects")

    def result(self, e, out):
        """`res` term for the function result e (None: no value), after the bindings of out"""
        ret, mut = self.ret, self.kind == "mut"
        if e is not None and e[0] == "block":
            return self.body_term(e[1], e[2], out)
        if self.mutparams and not (e is not None and e[0] == "if" and e[3] is not None):
            if e is not None and self.expr(e, out)[1] != UNIT:
                raise ParseError("value returned from a () function")
            return self.fin(out, self.tuple_term([self.env[n][0] for n in self.mutparams]))
        if e is not None and e[0] == "if" and e[3] is not None:
            cond, cty = self.expr(e[1], out)
            if cty != BOOL:
                raise ParseError("non-boolean condition")
            (t1, _, _) = self.scoped(lambda: self.result(e[2], []))
            (t2, _, _) = self.scoped(lambda: self.result(e[3], []))
            return render(out, ite(cond, t1, t2))
        if e is not None and e[0] == "iflet" and e[4] is not None:
            # `if let Some(x) = e { .. v } else { .. w }` as the result.  With `&mut place` as the scrutinee, x is a
            # local copy that is written back (`place = Some(x)`) at the end of the block; the block must not leave
            # early and its value must not mention x.
            _, name, scrut, then, els = e
            place = scrut[1] if scrut[0] == "refmut" else None
            t, ty = self.expr(place if place is not None else scrut, out)
            if ty[0] != "opt" or ty[1] is None:
                raise ParseError("`if let Some(..)` on a non-Option")
            if place is not None:
                if self.contains_return(then) or then[2] is None or self.mentions(then[2], name) \
                        or self.mentions(place, name):
                    raise ParseError("`if let Some(%s) = &mut ..`: unsupported use of the reference" % name)
                then = ("block", then[1] + [("assignp", place, None, ("call", ("var", "Some"), [("var", name)]))], then[2])
            x = coq_ident(name)

            def some_branch():
                if name in self.env:
                    raise ParseError("`if let Some(%s)` shadows an outer variable" % name)
                self.env[name] = (x, ty[1])
                self.declared[-1].add(name)
                return self.result(then, [])
            (t1, _, _) = self.scoped(some_branch)
            (t2, _, _) = self.scoped(lambda: self.result(els, []))
            return render(out, "match %s with\n| Some %s =>\n%s\n| None =>\n%s\nend" % (t, x, indent(t1, 4), indent(t2, 4)))
        is_ok = e is not None and e[0] == "call" and e[1] == ("var", "Ok") and len(e[2]) == 1
        is_err = e is not None and e[0] == "call" and e[1] == ("var", "Err") and len(e[2]) == 1
        if is_err:
            self.check_error_value(e[2][0])
        if mut:
            self_t = self.env["self"][0]
            if ret == UNIT:
                if e is not None:
                    t, ty = self.expr(e, out)
                    if ty != UNIT:
                        raise ParseError("value returned from a () function")
                return self.fin(out, self.env["self"][0])
            if ret[0] != "result":                                # &mut self with a value: (new state, value)
                if e is None or is_ok or is_err:
                    raise ParseError("missing result")
                t, ty = self.expr(e, out)
                if ty != ret and not (ty[0] == "opt" and ret[0] == "opt" and (ty[1] is None or ty[1] == ret[1])):
                    raise ParseError("result of type %r, expected %r" % (ty, ret))
                return self.fin(out, "(%s, %s)" % (self.env["self"][0], t))
            if is_ok:
                if e[2][0] != ("tuple", []):
                    raise ParseError("Ok(()) expected")
                return self.fin(out, "(%s, true)" % self_t)
            if is_err:
                return self.fin(out, "(%s, false)" % self_t)
            if e is None:
                raise ParseError("missing result")
            t, ty = self.expr(e, out)
            if ty != ("result", UNIT):
                raise ParseError("result of type %r in a Result<()> function" % (ty,))
            return self.fin(out, "(%s, %s)" % (self.env["self"][0], t))
        if e is None:
            if ret != UNIT:
                raise ParseError("missing result")
            return self.fin(out, "tt")
        if ret[0] == "result":
            if is_ok:
                t, ty = self.expr(e[2][0], out)
                if ty != ret[1]:
                    raise ParseError("Ok(..) of type %r, expected %r" % (ty, ret[1]))
                return self.fin(out, "(Some %s)" % t)
            if is_err:
                return self.fin(out, "None")
            t, ty = self.expr(e, out)
            if ty != ret:
                raise ParseError("result of type %r, expected %r" % (ty, ret))
            return self.fin_res(out, t)
        if is_ok or is_err:
            raise ParseError("Ok/Err in a function that does not return a Result")
        t, ty = self.expr(e, out)
        if ty != ret and not (ty[0] == "opt" and ret[0] == "opt" and (ty[1] is None or ty[1] == ret[1])):
            raise ParseError("result of type %r, expected %r" % (ty, ret))
        return self.fin_res(out, t)

    def body_term(self, stmts, tail, out=None):
        out = [] if out is None else out
        saved = dict(self.env)
        try:
            if self.stmts(stmts, out):
                if tail is not None:
                    raise ParseError("code after return")
                return out.pop()[1]
            if tail is not None and tail[0] == "if" and tail[3] is None:
                if self.if_stmt(tail, out):
                    raise ParseError("internal: if without else cannot return on both sides")
                tail = None
            elif tail is not None and tail[0] == "iflet" and tail[4] is not None and self.ret != UNIT \
                    and not self.contains_return(tail):
                pass                                              # the value of the function: result()
            elif tail is not None and tail[0] in ("for", "while", "whilelet", "loop", "iflet"):
                if (self.if_stmt if tail[0] == "iflet" else self.loop_stmt)(tail, out):
                    return out.pop()[1]
                tail = None
            return self.result(tail, out)
        finally:
            self.env = saved

    def run(self, blk):
        term = self.body_term(blk[1], blk[2])
        # effect free: `let`s followed by `Ok <pure term>`, or a call of an effect-free generated function
        lines = term.split("\n")
        m = re.fullmatch(r"([A-Za-z_0-9]+) c [^;]*", lines[-1])
        pure = all(l.startswith("let ") for l in lines[:-1]) and " <- " not in term and (
            lines[-1].startswith("Ok ") or bool(
                m and any(d["name"] == m.group(1) and d["pure"] for d in self.gen.done.values())))
        ret = self.ret
        if self.kind == "mut":
            cty = coq_type(("struct", self.owner))
            cty = "res %s" % cty if ret == UNIT else "res (%s * bool)" % cty if ret[0] == "result" else \
                "res (%s * %s)" % (cty, coq_type(ret))
        elif ret[0] == "result":
            cty = "res (option %s)" % coq_type(ret[1])
        elif self.mutparams:                                  # the new values of the `&mut` parameters
            cty = "res (%s)" % " * ".join(coq_type(t) for n, t in self.params if n in self.mutparams)
        else:
            cty = "res %s" % coq_type(ret)
        ps = []
        if self.uses_kind:
            ps.append("(kind_ : bkind)")
        if self.kind != "static":
            ps.append("(self : %s)" % coq_type(("struct", self.owner)))
        ps += ["(%s : %s)" % (coq_ident(n), coq_type(t)) for n, t in self.params]
        fuel = self.gen.recursion.get((self.mod, self.name))
        if fuel is not None:
            # a self-recursive function: a fixpoint on explicit fuel (exhaustion = Panic; the tie lemma proves the
            # generated function equal to a fuel-free model, so the registered bound is large enough) and its entry point
            if self.uses_kind or self.mutparams:
                raise ParseError("unsupported recursive function")
            args = (["self"] if self.kind != "static" else []) + [coq_ident(n) for n, _ in self.params]
            text = ("Fixpoint %s_%s_rec (fuel_ : nat) (c : cfg) %s{struct fuel_} : %s :=\n  match fuel_ with\n  | O => Panic\n"
                    "  | Datatypes.S fuel_ =>\n%s\n  end.\n\nDefinition %s_%s (c : cfg) %s: %s :=\n  %s_%s_rec %s c %s.") % (
                self.mod, self.name, "".join(p + " " for p in ps), cty, indent(term, 4),
                self.mod, self.name, "".join(p + " " for p in ps), cty, self.mod, self.name, fuel, " ".join(args))
            return text, False
        text = "Definition %s_%s (c : cfg) %s: %s :=\n%s." % (
            self.mod, self.name, "".join(p + " " for p in ps), cty, indent(term))
        return text, pure


METHODS_HEADER = """(* GENERATED by tools/translate.py from the loop-free methods of src/utils.rs, bit_vector.rs, rank9sel/inner.rs,
   compact_vector.rs, wavelet_matrix.rs, darray.rs, elias_fano.rs -- do not edit.
   Proofs/MethodsTie.v proves every definition equal to the hand-written model function. *)
From Sucds Require Import Base.Res Spec.WordSpec Model.BitVector Model.Rank9 Model.DArray Model.EliasFano
  Model.CompactVector gen.ConstsGen.
Open Scope N_scope.

(* usize::checked_add *)
Definition checked_add (a b : N) : option N := if a + b <? W then Some (a + b) else None.
"""


def gen_methods(repo):
    g = MethodsGen(repo)
    defs = g.run()
    return METHODS_HEADER + "\n" + "\n\n".join(defs) + "\n"



# ---------------------------------------------------------------------------------------------
# functions with loops -> gen/LoopsGen.v
#
# Same translation as gen/MethodsGen.v (class FnBody) plus the loop forms described at FnBody.loop_stmt:
#   for x in <vector | slice | a..b | it.iter() | it.into_iter()>,  it.for_each(|x| ..),  while c,  while let Some(x) = e,
#   loop,  break,  return inside a loop,  if let Some(x) = e { ..return/break } [else ..].
# The loop state is the tuple of outer variables (and `self`) assigned in the body; `for` loops are folds over the list
# (fold_res / fold_res_brk), the others `loopN W` (Base/Loops.v): at most 2^64 iterations, then Panic -- every loop of the
# crate advances a usize counter or cursor, so a real execution performs fewer iterations than that (Proofs/LoopsTieBV.v
# proves, under the record-range hypotheses it states, that the bound is never reached).
# A generic parameter `I: IntoIterator<Item = T>` is a list of T (the iterator argument is consumed in order, once).
# Iterator structs holding `&BitVector` are records defined in the generated file itself (LOOP_RECORDS).
# Callees: targets of this file -> generated here; loop-free targets of gen/MethodsGen.v -> their generated form;
# broadword.rs -> the spec-level word functions (C14), `uleq_step_9` and `broadword::CONSTANT` -> the generated
# definitions of gen/BroadwordGen.v.  Everything else in a target function: ParseError naming it.
#
# Forms added for the index structures (Rank9SelIndex, Rank9Sel, DArrayIndex, DArray; tied by Proofs/LoopsTieIdx.v):
#  * `self` / `mut self` by value: an ordinary value named self; `self.f = e` rebinds it, the result is the value.
#  * `fn f(a: &mut Vec<T>, ..)` (static, returning ()): the generated function returns the tuple of the new values of its
#    `&mut` parameters (parameter order); a call `f(&mut x, ..)` rebinds the local variables x, ...
#  * `vec![]`, `vec![a, b]`; a vector created empty learns its element type at the first push / call; `.first()`,
#    `.last()` (hd_error / last_opt), `.clear()`, `.shrink_to_fit()` (no-op), `let &x = e`.
#  * `for i in (a..b).step_by(s)`: fold over `nrange_by a b s` (with `assert_ (s != 0)` unless s is a non-zero constant).
#  * isize / u16: `x as isize`, `z as usize` (two's complement reinterpretation, Base/Loops.v), `x as u16` (mod 2^16),
#    `u16 as usize`, `u16::MAX`, comparisons of an isize, checked isize negation and subtraction (isize_neg / isize_sub),
#    indexing of Vec<isize> / Vec<u16>.
#  * a function selected by a boolean, `let w = if b { Self::f } else { Self::g };  ..  w(args)`: the boolean is bound
#    once (`let tN := b in`), every call becomes `if tN then f c args else g c args`.
#  * `let x = if c { stmts; v } else { stmts; w };` whose branches contain loops: a join of x and the outer variables
#    assigned in either branch; `if let Some(x) = e { .. } [else { .. }]` without return / break: a join by `match`.
#    A `break` inside a loop that stands inside such a join leaves that loop (the join itself cannot be left).
#
# Forms added for the sequence structures (CompactVector, EliasFanoBuilder, EliasFano and its Iter, SArray,
# PrefixSummedEliasFano; tied by Proofs/LoopsTieSeq.v):
#  * `T: ToPrimitive` is instantiated at usize (`&[T]` is a `list N`): `x.to_usize()` is `Some x`,
#    `.ok_or_else(|| anyhow!(..))` turns an Option into a Result (None = Err), `a.max(b)` is N.max.
#  * `e?` on a Result in a function returning a Result: the function returns "rejected" (`None`, or `(self, false)` for
#    a `&mut self` method returning Result<()>), also from inside a loop (the loop then has the return-carrying shape).
#    `if c { ..; e?; .. }` without else, whose block can return but also falls through: the block yields `inr v` (return
#    v) or `inl vars`, and the return is re-injected after the join (FnBody.if_exit_join).
#  * `(a..b).fold(init, |acc, i| e)`: `fold_res (fun acc i => e) (nrange a b) init`; `opt.and_then(|x| e)`.
#  * an iterator struct (a struct of this file with a translated `Iterator::next`): `for x in it` is
#    `while let Some(x) = it.next()` over a hidden local `itN_` that belongs to the loop state (loopN W); as the argument for
#    an `I: IntoIterator<Item = T>` parameter it is `iter_collect (next c) it` (Base/Loops.v): the list of the items it
#    yields.  Three Rust structs are called `Iter`: registry keys EfIter / CvIter / PsIter (RUST_NAME, LOOP_ITER_ALIAS).
#  * `panic!(..)` as a statement or in tail position: `Panic` (a jump, like `return`).
#  * `Range<usize>` parameters / arguments: the pair (start, end); `.start`, `.end`, `.is_empty()`.
#  * `let (a, b) = <expression of a tuple type>;`, e.g. an if/else of tuples.
#  * `if let Some(x) = e { .. v } else { .. w }` as the value of the function: a `match`; with `&mut self.f` as the
#    scrutinee x is a local copy written back (`self.f = Some(x)`) at the end of the block (the block must not leave
#    early and its value must not mention x).
#
# Forms added for the DACs and the wavelet matrix (DacsByte, DacsOpt, WaveletMatrix<B> and their iterators; tied by
# Proofs/LoopsTieDW.v):
#  * vectors of vectors / of structs: `vec![e; n]` for any element, `vec![vec![]; n]` (the rows learn their element type
#    at the first push), `v[i]` for any element type (`idx d v i`, d an arbitrary value of the type: idx panics out of
#    range and never returns d), places `v[i]`, `m[j][r]`: `m[j][r] = e` reads the row (bounds check), checks r, and
#    writes `setN m j (setN row r e)`; `v[i].push(e)`, `v[i].mutator(..)` write the element back the same way.
#  * `v.iter().map(f).collect()` / `v.into_iter().map(f).collect()` with a closure or a function path: `map` (effect-free
#    f) or `map_res` (Base/Res.v); `v.iter().sum::<usize>()`: a fold of checked `+`; `v.iter().enumerate()` and a tuple
#    pattern `for (j, &w) in ..`: a fold over `enumerate v` (Base/Loops.v); `(a..b).rev()`; `a..=b` (nrange_incl);
#    `it.max()` on an iterator struct (iter_collect, list_max_opt); `extend_from_slice`; `(a..b).len()`; `r.len()`.
#  * u8: `u8::try_from(e)` is a Result that is Err iff e >= 256, `usize::from(u8)` the identity; `a.min(b)`; `*r`.
#  * `assert_eq!` / `assert_ne!` / `debug_assert_eq!` (the comparison, left operand first); `continue` (the step of the
#    loop ends with the current state); a `let` may shadow the pattern variable of its loop.
#  * a hand-written `impl Default`: `Self::default()` calls the generated function.
#  * `Trait::method(&x, ..)` for the traits of bit_vectors.rs is `x.method(..)`.
#  * the type parameter B of WaveletMatrix<B> (bounds Access + Build + NumBits + Rank + Select) is the sum type `backing`
#    of Model/Wavelet.v (BRank9 | BDArray | BBitVec): a method call on a value of type B becomes a call of the dispatch
#    function `backing_<method>`, defined in the generated file by cases over the generated impls of the three types
#    (LoopsGen.backing_dispatch checks the trait declarations, the provided method `num_zeros`, and that each impl has
#    the signature of the trait); `B::build_from_bits(..)` dispatches on an explicit parameter `kind_ : bkind` of the
#    generated function (WaveletMatrix::new).
#  * self-recursive functions (LOOP_RECURSION): a fixpoint `<name>_rec` on explicit fuel (exhaustion = Panic) and the
#    entry point `<name>` that supplies the registered fuel.
# ---------------------------------------------------------------------------------------------

LOOP_RECORDS = {
    "Iter": ("bviter", [("bv", "&'a BitVector", "it_bv"), ("pos", "usize", "it_pos")]),
    "UnaryIter": ("unaryiter", [("bv", "&'a BitVector", "ui_bv"), ("pos", "usize", "ui_pos"),
                                ("buf", "usize", "ui_buf")]),
}
# iterator structs of the sequence modules (three Rust structs called `Iter`: registry keys EfIter, CvIter, PsIter)
LOOP_RECORDS_SEQ = {
    "EfIter": ("efiter_g", [("ef", "&'a EliasFano", "ei_ef"), ("k", "usize", "ei_k"),
                            ("high_iter", "Option<UnaryIter<'a>>", "ei_high_iter"), ("low_buf", "usize", "ei_low_buf"),
                            ("low_mask", "usize", "ei_low_mask"), ("chunks_in_word", "usize", "ei_chunks_in_word"),
                            ("chunks_avail", "usize", "ei_chunks_avail")]),
    "CvIter": ("cviter", [("cv", "&'a CompactVector", "ci_cv"), ("pos", "usize", "ci_pos")]),
    "PsIter": ("psiter", [("efl", "&'a PrefixSummedEliasFano", "pi_efl"), ("pos", "usize", "pi_pos")]),
}
LOOP_RECORDS.update(LOOP_RECORDS_SEQ)
# iterator structs of the DACs and of the wavelet matrix (Proofs/LoopsTieDW.v)
LOOP_RECORDS_DW = {
    "DbIter": ("dbiter", [("seq", "&'a DacsByte", "dbi_seq"), ("pos", "usize", "dbi_pos")]),
    "DoIter": ("doiter", [("seq", "&'a DacsOpt", "doi_seq"), ("pos", "usize", "doi_pos")]),
    "WmIter": ("wmiter", [("wm", "&'a WaveletMatrix<B>", "wi_wm"), ("pos", "usize", "wi_pos")]),
}
LOOP_RECORDS.update(LOOP_RECORDS_DW)
RUST_NAME.update({"EfIter": "Iter", "CvIter": "Iter", "PsIter": "Iter", "DbIter": "Iter", "DoIter": "Iter", "WmIter": "Iter"})
# the struct called `Iter` in the file of each of these owners
LOOP_ITER_ALIAS = {"EliasFano": "EfIter", "EfIter": "EfIter", "CompactVector": "CvIter", "CvIter": "CvIter",
                   "PrefixSummedEliasFano": "PsIter", "PsIter": "PsIter",
                   "DacsByte": "DbIter", "DbIter": "DbIter", "DacsOpt": "DoIter", "DoIter": "DoIter",
                   "WaveletMatrix": "WmIter", "WmIter": "WmIter"}
RECORDS.update(LOOP_RECORDS)
RECORDS["Rank9Sel"] = ("r9sel", [("bv", "BitVector", "r9_bv"), ("rs", "Rank9SelIndex", "r9_rs")])   # Model/Rank9.v
RECORDS["EliasFanoBuilder"] = ("efbuilder", [                                                        # Model/EliasFano.v
    ("high_bits", "BitVector", "b_high"), ("low_bits", "BitVector", "b_low"), ("universe", "usize", "b_universe"),
    ("num_vals", "usize", "b_num_vals"), ("pos", "usize", "b_pos"), ("last", "usize", "b_last"),
    ("low_len", "usize", "b_low_len")])
RECORDS["SArray"] = ("sarray", [("ef", "Option<EliasFano>", "sa_ef"), ("num_bits", "usize", "sa_num_bits"),   # Model/SArray.v
                                ("num_ones", "usize", "sa_num_ones"), ("has_rank", "bool", "sa_has_rank")])
RECORDS["PrefixSummedEliasFano"] = ("psef", [("ef", "EliasFano", "ps_ef")])                              # Model/Psef.v
RECORDS["DacsByte"] = ("dacsbyte", [("data", "Vec<Vec<u8>>", "db_data"), ("flags", "Vec<Rank9Sel>", "db_flags")])      # Model/Dacs.v
RECORDS["DacsOpt"] = ("dacsopt", [("data", "Vec<CompactVector>", "do_data"), ("flags", "Vec<Rank9Sel>", "do_flags")])  # Model/Dacs.v
RECORDS["WaveletMatrix"] = ("wavelet", [("layers", "Vec<B>", "wm_layers"), ("alph_size", "usize", "wm_alph_size")])    # Model/Wavelet.v

LOOP_TYPE_FILES = {
    "BitVector": "src/bit_vectors/bit_vector.rs",
    "Iter": "src/bit_vectors/bit_vector.rs",
    "UnaryIter": "src/bit_vectors/bit_vector/unary.rs",
    "Rank9SelIndex": "src/bit_vectors/rank9sel/inner.rs",
    "Rank9Sel": "src/bit_vectors/rank9sel.rs",
    "DArrayIndex": "src/bit_vectors/darray/inner.rs",
    "DArray": "src/bit_vectors/darray.rs",
    # Proofs/LoopsTieSeq.v
    "utils": "src/utils.rs",
    "CompactVector": "src/int_vectors/compact_vector.rs",
    "CvIter": "src/int_vectors/compact_vector.rs",
    "EliasFanoBuilder": "src/mii_sequences/elias_fano.rs",
    "EliasFano": "src/mii_sequences/elias_fano.rs",
    "EfIter": "src/mii_sequences/elias_fano/iter.rs",
    "SArray": "src/bit_vectors/sarray.rs",
    "PrefixSummedEliasFano": "src/int_vectors/prefix_summed_elias_fano.rs",
    "PsIter": "src/int_vectors/prefix_summed_elias_fano.rs",
    # Proofs/LoopsTieDW.v
    "DacsByte": "src/int_vectors/dacs_byte.rs",
    "DbIter": "src/int_vectors/dacs_byte.rs",
    "DacsOpt": "src/int_vectors/dacs_opt.rs",
    "DoIter": "src/int_vectors/dacs_opt.rs",
    "WaveletMatrix": "src/char_sequences/wavelet_matrix.rs",
    "WmIter": "src/char_sequences/wavelet_matrix.rs",
}
LOOP_MODULES = [
    ("bit_vector", "BitVector", "bit_vector"),
    ("bit_vector_iter", "Iter", "bit_vector"),
    ("unary_iter", "UnaryIter", "bit_vector"),
    ("rank9", "Rank9SelIndex", "rank9"),
    ("rank9sel", "Rank9Sel", None),
    ("darray_index", "DArrayIndex", "darray"),
    ("darray", "DArray", None),
    # Proofs/LoopsTieSeq.v
    ("compact_vector", "CompactVector", None),
    ("compact_vector_iter", "CvIter", None),
    ("elias_fano_builder", "EliasFanoBuilder", None),
    ("elias_fano", "EliasFano", "elias_fano"),
    ("elias_fano_iter", "EfIter", None),
    ("sarray", "SArray", None),
    ("psef", "PrefixSummedEliasFano", None),
    ("psef_iter", "PsIter", None),
    # Proofs/LoopsTieDW.v
    ("dacs_byte", "DacsByte", "dacs_byte"),
    ("dacs_byte_iter", "DbIter", None),
    ("dacs_opt", "DacsOpt", None),
    ("dacs_opt_iter", "DoIter", None),
    ("wavelet_matrix", "WaveletMatrix", None),
    ("wavelet_matrix_iter", "WmIter", None),
]
LOOP_TARGETS = {
    "bit_vector": [(None, "new"), (None, "from_bit"), (None, "from_bits"), ("Extend", "extend"), ("Rank", "rank1"),
                   ("Select", "select1"), ("Select", "select0"), (None, "predecessor1"), (None, "predecessor0"),
                   (None, "successor1"), (None, "successor0"),
                   (None, "iter"), (None, "unary_iter")],      # LOOP_LATE: emitted after the index structures
    "bit_vector_iter": [(None, "new"), ("Iterator", "next"), ("Iterator", "size_hint")],
    "unary_iter": [(None, "new"), (None, "position"), (None, "skip1"), (None, "skip0"), ("Iterator", "next")],
    # Proofs/LoopsTieIdx.v
    "rank9": [(None, "build_rank"), (None, "build_select1"), (None, "build_select0"), (None, "new"),
              (None, "select1_hints"), (None, "select0_hints"), (None, "select1"), (None, "select0")],
    "rank9sel": [(None, "new"), (None, "select1_hints"), (None, "select0_hints"), (None, "from_bits"),
                 ("Build", "build_from_bits"), (None, "len"), ("NumBits", "num_bits"), ("NumBits", "num_ones"),
                 ("Access", "access"), ("Rank", "rank1"), ("Rank", "rank0"), ("Select", "select1"),
                 ("Select", "select0")],
    "darray_index": [(None, "get_word_over_one"), (None, "get_word_over_zero"), (None, "flush_cur_block"),
                     (None, "build"), (None, "new"), (None, "select")],
    "darray": [(None, "from_bits"), (None, "enable_rank"), (None, "enable_select0"), ("Build", "build_from_bits")],
    # Proofs/LoopsTieSeq.v
    "compact_vector": [(None, "from_int"), (None, "from_slice"), (None, "extend"), ("Access", "access")],
    "compact_vector_iter": [(None, "new"), ("Iterator", "next"), ("Iterator", "size_hint")],
    "elias_fano_builder": [(None, "new"), (None, "push"), (None, "extend"), (None, "build")],
    "elias_fano": [(None, "from_bits"), (None, "enable_rank"), (None, "rank"), (None, "iter"),
                   (None, "binsearch_range"), (None, "binsearch")],
    "elias_fano_iter": [(None, "new"), ("Iterator", "next")],
    "sarray": [(None, "from_bits"), (None, "enable_rank"), (None, "has_rank"), (None, "predecessor1"),
               (None, "successor1"), (None, "len"), ("Build", "build_from_bits"), ("NumBits", "num_bits"),
               ("NumBits", "num_ones"), ("Access", "access"), ("Rank", "rank1"), ("Rank", "rank0"),
               ("Select", "select1")],
    "psef": [(None, "from_slice"), (None, "len"), (None, "sum"), ("Access", "access")],
    "psef_iter": [(None, "new"), ("Iterator", "next"), ("Iterator", "size_hint")],
    # Proofs/LoopsTieDW.v
    "dacs_byte": [("Default", "default"), (None, "from_slice"), (None, "len"), (None, "is_empty"), (None, "num_levels"),
                  (None, "widths"), ("Access", "access"), (None, "iter"), ("Build", "build_from_slice"),
                  ("NumVals", "num_vals")],
    "dacs_byte_iter": [(None, "new"), ("Iterator", "next"), ("Iterator", "size_hint")],
    "dacs_opt": [("Default", "default"), (None, "compute_opt_widths"), (None, "build"), (None, "from_slice"), (None, "len"),
                 (None, "is_empty"), (None, "num_levels"), (None, "widths"), ("Access", "access"), (None, "iter"),
                 ("Build", "build_from_slice"), ("NumVals", "num_vals")],
    "dacs_opt_iter": [(None, "new"), ("Iterator", "next"), ("Iterator", "size_hint")],
    "wavelet_matrix": [(None, "filter"), (None, "new"), (None, "len"), (None, "is_empty"), (None, "alph_size"),
                       (None, "alph_width"), (None, "access"), (None, "rank_range"), (None, "rank"),
                       (None, "select_helper"), (None, "select"), (None, "quantile"), (None, "intersect_helper"),
                       (None, "intersect"), (None, "iter")],
    "wavelet_matrix_iter": [(None, "new"), ("Iterator", "next"), ("Iterator", "size_hint")],
}
# added to the older modules for the wavelet matrix
LOOP_TARGETS["bit_vector"] += [("Build", "build_from_bits")]
LOOP_TARGETS["compact_vector"] += [(None, "is_empty"), (None, "iter")]
# targets of the first modules that are emitted after all of them (added later; the order of the older definitions in
# gen/LoopsGen.v is kept)
LOOP_LATE = {("bit_vector", "iter"), ("bit_vector", "unary_iter")}
# likewise: emitted after the sequence modules, before the DACs
LOOP_LATE_DW = {("bit_vector", "build_from_bits"), ("compact_vector", "is_empty"), ("compact_vector", "iter")}
# self-recursive functions: (module, fn) -> fuel of the generated fixpoint (FnBody.run).  Every call of these two
# functions either stops (depth == alph_width), panics (`self.layers[depth]` out of range) or recurses with depth + 1,
# so a call tree is at most alph_width + 1 deep; the tie lemmas prove the generated functions equal to the fuel-free
# models (structural recursion over the remaining layers), which fails if the fuel were too small.
LOOP_RECURSION = {("wavelet_matrix", "select_helper"): "(Datatypes.S (length (wm_layers self)))",
                  ("wavelet_matrix", "intersect_helper"): "(Datatypes.S (length (wm_layers self)))"}
# the three types instantiating the parameter B of WaveletMatrix<B>: constructor of `backing`, of `bkind`, Rust type
BACKINGS = [("BRank9", "KRank9", "Rank9Sel"), ("BDArray", "KDArray", "DArray"), ("BBitVec", "KBitVec", "BitVector")]
# functions of broadword.rs called in their generated form (gen/BroadwordGen.v): name -> (parameter types, result type)
LOOP_BROADWORD_FNS = {"uleq_step_9": (["usize", "usize"], "usize")}
# constants a module imports from its parent: module -> (required `use` line, module of the constants)
LOOP_IMPORTED_CONSTS = {"UnaryIter": ("use super::WORD_LEN;", "BitVector", ["WORD_LEN"])}


class LoopsGen(MethodsGen):
    type_files, modules, targets = LOOP_TYPE_FILES, LOOP_MODULES, LOOP_TARGETS
    recursion = LOOP_RECURSION

    def __init__(self, repo):
        MethodsGen.__init__(self, repo)
        bw = rp.strip_tests(open(os.path.join(repo, "src/broadword.rs")).read())
        self.broadword_consts = {n: init for n, ty, init in rp.top_level_consts(bw) if ty == "usize"}
        sigs = {n: (rp.typed_params(p), r) for n, p, r, _, _ in rp.functions(bw)}
        for n, (ps, r) in LOOP_BROADWORD_FNS.items():          # the signatures assumed above are those of the source
            if n not in sigs or [t for _, t in sigs[n][0]] != ps or sigs[n][1] != r:
                raise ParseError("broadword::%s changed its signature" % n)

    def module_consts(self, owner, prefix):
        if owner in LOOP_IMPORTED_CONSTS:
            use, parent, names = LOOP_IMPORTED_CONSTS[owner]
            if use not in self.src[owner]:
                raise ParseError("%s no longer contains `%s`" % (self.type_files[owner], use))
            env = MethodsGen.module_consts(self, parent, prefix)
            return {n: env[n] for n in names}
        return MethodsGen.module_consts(self, owner, prefix)

    def resolve_callee(self, from_mod, owner, name):
        mod = self.module_of_owner.get(owner)
        if mod is not None and self.is_target(mod, name):
            info = self.translate(mod, name)
            return "gen", info["name"], self.signature(owner, name, self.target_trait(mod, name))
        for m, o, _ in METHOD_MODULES:                    # loop-free methods: gen/MethodsGen.v (tied by MethodsTie.v)
            if o == owner and owner in self.src and any(n == name for _, n in METHOD_TARGETS[m]):
                trait = [t for t, n in METHOD_TARGETS[m] if n == name][0]
                return "gen", "%s_%s" % (m, name), self.signature(owner, name, trait)
        if owner == "broadword" and (owner, name) in MODEL_CALLEES:
            how, what = MODEL_CALLEES[(owner, name)]
            ps, r = BROADWORD_SIGS[name]
            return how, what, ("static", [("x", parse_rtype(p, None)) for p in ps], parse_rtype(r, None))
        if owner == "broadword" and name in LOOP_BROADWORD_FNS:
            ps, r = LOOP_BROADWORD_FNS[name]
            return "res", "BroadwordGen.%s" % name, (
                "static", [("x", parse_rtype(p, None)) for p in ps], parse_rtype(r, None))
        raise ParseError("call to %s::%s, which is neither a translated function nor a known model function" % (owner, name))

    def record_decls(self):
        out = []
        for owner, (rec, fields) in LOOP_RECORDS.items():
            out.append("Record %s := { %s }." % (rec, "; ".join(
                "%s : %s" % (proj, coq_type(parse_rtype(t, owner))) for _, t, proj in fields)))
        return out

    def alias(self, from_owner, name):
        if name == "Iter" and from_owner in LOOP_ITER_ALIAS:
            return LOOP_ITER_ALIAS[from_owner]
        return name

    def generics(self, owner, trait, name):
        out = MethodsGen.generics(self, owner, trait, name)
        if owner in LOOP_ITER_ALIAS:
            out["Iter"] = ("struct", LOOP_ITER_ALIAS[owner])
            out["Iter<B>"] = ("struct", LOOP_ITER_ALIAS[owner])
        return out

    def iterator_next(self, owner):
        mod = self.module_of_owner.get(owner)
        if mod is None or ("Iterator", "next") not in self.targets[mod]:
            return None
        info = self.translate(mod, "next")
        _, _, rty = self.signature(owner, "next", "Iterator")
        if rty[0] != "opt":
            raise ParseError("%s::next does not return an Option" % owner)
        return info["name"], rty[1]

    def backing_dispatch(self):
        """the dispatch functions `backing_<method>` for values of the type parameter B of WaveletMatrix<B> (bounds
        Access + Build + NumBits + Rank + Select): by cases on the three supported types, calling the generated impls;
        `num_zeros` is the provided method of trait NumBits.  Emitted once, before the first function that uses them."""
        key = ("@backing", "dispatch")
        if key in self.done:
            return
        traits = strip_line_comments(open(os.path.join(self.repo, "src/bit_vectors.rs")).read())
        provided = {}
        for trait, methods in BACKING_TRAITS.items():
            m = re.search(r"pub trait %s\s*\{" % trait, traits)
            if not m:
                raise ParseError("src/bit_vectors.rs: trait %s not found" % trait)
            body = traits[m.end() - 1:rp.find_matching(traits, m.end() - 1) + 1]
            declared = re.findall(r"\bfn\s+([a-z_0-9]+)", body)
            if sorted(declared) != sorted(methods):
                raise ParseError("src/bit_vectors.rs: trait %s declares %r, expected %r" % (trait, declared, methods))
            for n, ps, r, b, _ in rp.functions(body):           # provided methods (with a body)
                provided[n] = " ".join(b.split())
        if provided != {"num_zeros": "{ self.num_bits() - self.num_ones() }"}:
            raise ParseError("src/bit_vectors.rs: the provided trait methods changed: %r" % (provided,))
        msig = re.search(r"fn build_from_bits<I>\(\s*bits: I,\s*with_rank: bool,\s*with_select1: bool,\s*with_select0: bool,?\s*\)"
                         r"\s*->\s*Result<Self>\s*where\s*I: IntoIterator<Item = bool>,\s*Self: Sized;", traits)
        if not msig:
            raise ParseError("src/bit_vectors.rs: Build::build_from_bits changed its signature")
        lines = ["(* values of the type parameter B of WaveletMatrix<B>: dispatch over the three supported types *)"]
        for name, (ptys, rty) in BACKING_METHODS.items():
            if name == "num_zeros":
                continue
            trait = [t for t, ms in BACKING_TRAITS.items() if name in ms][0]
            ps = ["x%d_" % i for i in range(len(ptys))]
            cases = []
            for ctor, _, owner in BACKINGS:
                if any(t == trait and n == "num_zeros" for (t, n) in self.fns[owner]) or owner not in self.src:
                    raise ParseError("%s overrides NumBits::num_zeros" % owner)
                how, what, (skind, sp, sr) = self.resolve_callee("@backing", owner, name)
                if how != "gen" or skind != "ref" or [t for _, t in sp] != ptys or sr != rty:
                    raise ParseError("%s::%s does not have the signature of trait %s" % (owner, name, trait))
                cases.append("  | %s v_ => %s c v_%s" % (ctor, what, "".join(" " + p for p in ps)))
            lines.append("Definition backing_%s (c : cfg) (b_ : backing)%s : res %s :=\n  match b_ with\n%s\n  end." % (
                name, "".join(" (%s : %s)" % (p, coq_type(t)) for p, t in zip(ps, ptys)), coq_type(rty), "\n".join(cases)))
        lines.append("Definition backing_num_zeros (c : cfg) (b_ : backing) : res N :=\n"
                     "  t1 <- backing_num_bits c b_ ;;\n  t2 <- backing_num_ones c b_ ;;\n  sub c t1 t2.")
        cases = []
        for ctor, kctor, owner in BACKINGS:
            how, what, (skind, sp, sr) = self.resolve_callee("@backing", owner, "build_from_bits")
            if how != "gen" or skind != "static" or [t for _, t in sp] != [("vec", BOOL), BOOL, BOOL, BOOL] \
                    or sr != ("result", ("struct", owner)):
                raise ParseError("%s::build_from_bits does not have the signature of trait Build" % owner)
            cases.append("  | %s => rmap (option_map %s) (%s c bits_ r_ s1_ s0_)" % (kctor, ctor, what))
        lines.append("Definition backing_build_from_bits (c : cfg) (kind_ : bkind) (bits_ : list bool) (r_ s1_ s0_ : bool) "
                     ": res (option backing) :=\n  match kind_ with\n%s\n  end." % "\n".join(cases))
        self.done[key] = dict(name="backing_dispatch", text="\n\n".join(lines), pure=False, kind=False)
        self.order.append(key)

    def run(self):
        late, late_dw = [], []
        for mod, _, _ in self.modules:
            if mod == "compact_vector":                      # the first of the newer modules
                for m, n in late:
                    self.translate(m, n)
                late = []
            if mod == "dacs_byte":                           # the first of the modules of Proofs/LoopsTieDW.v
                for m, n in late_dw:
                    self.translate(m, n)
                late_dw = []
            for _, name in self.targets[mod]:
                if (mod, name) in LOOP_LATE:
                    late.append((mod, name))
                elif (mod, name) in LOOP_LATE_DW:
                    late_dw.append((mod, name))
                else:
                    self.translate(mod, name)
        for m, n in late + late_dw:
            self.translate(m, n)
        return [self.done[k]["text"] for k in self.order]


LOOPS_HEADER = """(* GENERATED by tools/translate.py from the functions with loops of src/bit_vectors/bit_vector.rs,
   src/bit_vectors/bit_vector/unary.rs, src/bit_vectors/rank9sel/inner.rs, rank9sel.rs, darray/inner.rs,
   darray.rs, src/int_vectors/compact_vector.rs, src/mii_sequences/elias_fano.rs, elias_fano/iter.rs,
   src/bit_vectors/sarray.rs and src/int_vectors/prefix_summed_elias_fano.rs -- do not edit.
   Proofs/LoopsTieBV.v, Proofs/LoopsTieIdx.v and Proofs/LoopsTieSeq.v prove every definition equal to the hand-written
   model function. *)
From Sucds Require Import Base.Res Base.Loops Spec.WordSpec Model.BitVector Model.Rank9 Model.DArray gen.ConstsGen
  gen.MethodsGen.
From Sucds Require gen.BroadwordGen.
From Sucds Require Import Model.CompactVector Model.EliasFano Model.SArray Model.Psef.
From Sucds Require Import Model.Dacs Model.Wavelet.
Open Scope N_scope.
"""


def gen_loops(repo):
    g = LoopsGen(repo)
    defs = g.run()
    return LOOPS_HEADER + "\n" + "\n".join(g.record_decls()) + "\n\n" + "\n\n".join(defs) + "\n"


# ---------------------------------------------------------------------------------------------
# the generic `impl Serializable` blocks of src/serial.rs and src/serial/primitive.rs -> gen/SerialImplGen.v
#
# Translation scheme (vocabulary: Base/SerialDict.v; the equalities with Spec/FormatSpec.v are Proofs/SerialImplTie.v):
#
#  * Every impl block becomes four definitions `<T>_serialize_into`, `<T>_deserialize_from`, `<T>_size_in_bytes`,
#    `<T>_size_of` and the dictionary `<T>_dict : serdict Wr Rd <carrier>` that packs them.  `<T>` is the integer type
#    (the body of `macro_rules! common_def` with `$int` replaced, once per `common_def!(T);`), `bool`, `option`
#    (impl<S> .. for Option<S>) or `vec` (impl<S> .. for Vec<S>); a missing `size_of` is the provided method of the
#    trait declaration.  Carriers: unsigned integers N, signed integers Z, bool, `option A`, `list A`; the type parameter
#    S is a carrier type `A` with its dictionary `dS`.
#  * `W: Write` / `R: Read` are abstract stream states (`io : io_ops Wr Rd`): a function that takes `writer` (by value
#    or as `&mut writer`) takes the state and returns the new one next to its Rust result; the only operations are
#    `writer.write_all(&bytes)?` and `reader.read_exact(&mut buf)?` (buf rebinds to the bytes read; its length is the
#    request).  A `Result` that is not propagated at once by `?`, returned, or mapped in tail position is outside the
#    subset.
#  * Functions returning `Result<_>` live in the monad `rio` (Panic / Err / Ok): `e?` is `<-?`; every `+` / `*` goes
#    through the checked primitive (`add c`, `mul c`) in Rust's evaluation order, `.unwrap()` through `unwrap`.
#    `if let Some(x) = o {..} else {..}`, `let v = if b {..} else {..};` and `for x in v {..}` / `for _ in a..b {..}`
#    are joins / `fold_rio` over the tuple of outer variables they assign (a stream that is mentioned counts as
#    assigned).  `v.iter().fold(i, |acc, x| ..)` is `fold_res`, `o.map_or(d, |x| ..)` / `o.map_or_else(|| .., |m| ..)`
#    are matches, `r.map(|x| ..)` on a Result in tail position maps the value.
#  * `std::mem::size_of::<T>()` is the byte width of T (the files are `#![cfg(target_pointer_width = "64")]`, checked),
#    `x.to_le_bytes()` / `Self::from_le_bytes(buf)` are `uint_to_le k` / `uint_of_le k` (`sint_..` for signed types),
#    `[0; k]` is `repeat 0 k`, `b as u8` on a bool is `b2n`, `Vec::with_capacity(n)` is the empty vector (allocation is
#    not modelled), `vec.push(e)` appends.
#  * Anything else inside these impls raises ParseError naming the impl and the method (exit status 2).
# ---------------------------------------------------------------------------------------------

INT_WIDTH = {"u8": 1, "u16": 2, "u32": 4, "u64": 8, "usize": 8, "i8": 1, "i16": 2, "i32": 4, "i64": 8, "isize": 8}
SI_USIZE = ("int", "usize")
SI_RESERVED = COQ_RESERVED | set("""io ok err rio rbind self_ dS A Wr Rd repeat rev app nrange fold_rio fold_res io_wr io_rd
    sd_ser sd_deser sd_size sd_size_of uint_to_le uint_of_le sint_to_le sint_of_le ser deser size val ty Z""".split())
SI_METHODS = ("serialize_into", "deserialize_from", "size_in_bytes", "size_of")
SI_SIGS = {"serialize_into": ("Result<usize>", "Write"), "deserialize_from": ("Result<Self>", "Read"),
           "size_in_bytes": ("usize", None), "size_of": ("Option<usize>", None)}


def si_ident(name):
    if name in SI_RESERVED or re.fullmatch(r"t\d+", name):
        return name + "_"
    return name


def si_tuple(names):
    if not names:
        return "tt"
    return names[0] if len(names) == 1 else "(" + ", ".join(names) + ")"


def si_render(items, final):
    """items: ("rio", pattern, term) `pat <-? term ;;` | ("res", pattern, term) `pat <- term ;;` | ("let", pattern, term)"""
    lines = []
    for kind, pat, term in items:
        if kind == "let":
            if pat.startswith("("):
                pat = "'" + pat
            lines.append("let %s := %s in" % (pat, term))
            continue
        if "\n" in term:
            term = "(" + term.replace("\n", "\n  ") + ")"
        if pat.startswith("("):
            pat = "'" + pat
        lines.append("%s %s %s ;;" % (pat, "<-?" if kind == "rio" else "<-", term))
    lines.append(final)
    return "\n".join(lines)


class SerialImplFn:
    """one method of one generic impl"""

    def __init__(self, gen, owner, self_ty, method, tparam):
        self.gen, self.owner, self.self_ty, self.method, self.tparam = gen, owner, self_ty, method, tparam
        self.mode = "rio" if method in ("serialize_into", "deserialize_from") else "res"
        self.env = {}             # rust variable -> type (insertion order = declaration order)
        self.stream = None        # the writer / reader parameter
        self.counter = 0

    # types: ("int", name) ("bool",) ("param", S) ("vec", T) ("opt", T) ("bytes",) ("writer",) ("reader",) ("lit",)
    def fail(self, msg):
        raise ParseError("impl Serializable for %s, %s: %s" % (self.owner, self.method, msg))

    def fresh(self):
        self.counter += 1
        return "t%d" % self.counter

    def resolve_type(self, name):
        if name == "Self":
            return self.self_ty
        if name in INT_WIDTH:
            if name not in self.gen.defined:
                self.fail("%s is used before / without its Serializable impl" % name)
            return ("int", name)
        if name == "bool":
            if "bool" not in self.gen.defined:
                self.fail("bool is used before / without its Serializable impl")
            return ("bool",)
        if self.tparam and name == self.tparam:
            return ("param", name)
        self.fail("unsupported type %s" % name)

    def is_usize(self, ty):
        return ty in (SI_USIZE, ("lit",))

    def fn_of(self, ty, method):
        """Coq head of `<ty as Serializable>::method` (without the value / stream arguments)"""
        if ty[0] == "param":
            return {"serialize_into": "sd_ser dS", "deserialize_from": "sd_deser dS", "size_in_bytes": "sd_size dS",
                    "size_of": "sd_size_of dS"}[method]
        if ty[0] == "int":
            base = ty[1]
        elif ty[0] == "bool":
            base = "bool"
        else:
            self.fail("%s of a nested %s is not supported" % (method, ty[0]))
        if base not in self.gen.defined:
            self.fail("%s is used before / without its Serializable impl" % base)
        return "%s_%s %s" % (base, method, "io c" if method in ("serialize_into", "deserialize_from") else "c")

    def width(self, ty):
        if ty[0] == "int":
            return INT_WIDTH[ty[1]]
        self.fail("std::mem::size_of of a non-integer type")

    # -- effects ------------------------------------------------------------------------------
    def bind_res(self, out, term):
        t = self.fresh()
        out.append(("res", t, term))
        return t

    def stream_arg(self, a, want):
        """`writer` / `&mut writer` passed on: the name of the stream variable"""
        if a[0] == "refmut":
            a = a[1]
        if a[0] != "var" or self.env.get(a[1], (None,))[0] != want:
            self.fail("the %s argument must be the %s parameter (or `&mut` of it)" % (want, want))
        return a[1]

    def result_call(self, e, out):
        """a call whose Rust type is Result<_>: (kind, rio term, value type, stream variable, extra)"""
        if self.mode != "rio":
            self.fail("I/O inside a function that does not return a Result")
        if e[0] == "mcall":
            recv, name, args = e[1], e[2], e[3]
            if name == "write_all":
                if recv[0] != "var" or self.env.get(recv[1], (None,))[0] != "writer" or len(args) != 1 or args[0][0] != "ref":
                    self.fail("unsupported write_all call")
                bs, bty = self.expr(args[0][1], out)
                if bty != ("bytes",):
                    self.fail("write_all of a non-byte-array")
                return ("wr", "io_wr io %s %s" % (si_ident(recv[1]), bs), ("unit",), recv[1], None)
            if name == "read_exact":
                if recv[0] != "var" or self.env.get(recv[1], (None,))[0] != "reader" or len(args) != 1 \
                        or args[0][0] != "refmut" or args[0][1][0] != "var" or self.env.get(args[0][1][1]) != ("bytes",):
                    self.fail("unsupported read_exact call")
                buf = args[0][1][1]
                return ("rd", "io_rd io %s (lenN %s)" % (si_ident(recv[1]), si_ident(buf)), ("unit",), recv[1], buf)
            if name == "serialize_into":
                if len(args) != 1:
                    self.fail("serialize_into takes one argument")
                v, vty = self.expr(recv, out)
                if vty == ("lit",):
                    self.fail("serialize_into of an untyped literal")
                w = self.stream_arg(args[0], "writer")
                return ("ser", "%s %s %s" % (self.fn_of(vty, "serialize_into"), v, si_ident(w)), SI_USIZE, w, None)
        if e[0] == "call" and e[1][0] == "path" and len(e[1][1]) == 2 and e[1][1][1] == "deserialize_from":
            ty = self.resolve_type(e[1][1][0])
            if len(e[2]) != 1:
                self.fail("deserialize_from takes one argument")
            r = self.stream_arg(e[2][0], "reader")
            return ("deser", "%s %s" % (self.fn_of(ty, "deserialize_from"), si_ident(r)), ty, r, None)
        return None

    def try_expr(self, inner, out):
        rc = self.result_call(inner, out)
        if rc is None:
            self.fail("`?` on an unsupported expression")
        kind, term, vty, stream, buf = rc
        s = si_ident(stream)
        if kind == "wr":
            out.append(("rio", s, term))
            return "tt", ("unit",)
        if kind == "rd":
            out.append(("rio", "(%s, %s)" % (si_ident(buf), s), term))
            return "tt", ("unit",)
        t = self.fresh()
        out.append(("rio", "(%s, %s)" % ((s, t) if kind == "ser" else (t, s)), term))
        return t, vty

    # -- expressions: a pure Coq term and its type; effects are appended to `out` ---------------
    def expr(self, e, out):
        k = e[0]
        if k == "num":
            return str(e[1]), ("lit",)
        if k == "var":
            n = e[1]
            if n in ("true", "false"):
                return n, ("bool",)
            if n == "None":
                return "None", ("opt", None)
            if n in self.env:
                if self.env[n][0] in ("writer", "reader"):
                    self.fail("the %s is used as a value" % n)
                return si_ident(n), self.env[n]
            self.fail("unknown variable %s" % n)
        if k == "ref" or (k == "un" and e[1] == "*"):
            return self.expr(e[1] if k == "ref" else e[2], out)
        if k == "try":
            return self.try_expr(e[1], out)
        if k == "cast":
            v, ty = self.expr(e[1], out)
            if ty == ("bool",) and e[2] in INT_WIDTH and not e[2].startswith("i"):
                return "(b2n %s)" % v, ("int", e[2])
            self.fail("unsupported cast to %s" % e[2])
        if k == "bin":
            op = e[1]
            a, aty = self.expr(e[2], out)
            b, bty = self.expr(e[3], out)
            if op in ("+", "*"):
                if not (self.is_usize(aty) and self.is_usize(bty)):
                    self.fail("`%s` on operands that are not usize" % op)
                return self.bind_res(out, "%s c %s %s" % ("add" if op == "+" else "mul", a, b)), SI_USIZE
            if op in ("==", "!="):
                if not (aty[0] in ("int", "lit") and bty[0] in ("int", "lit")) or \
                        (aty[0] == "int" and bty[0] == "int" and aty != bty):
                    self.fail("comparison of unsupported operands")
                signed = (aty[0] == "int" and aty[1].startswith("i")) or (bty[0] == "int" and bty[1].startswith("i"))
                t = ("(Z.eqb %s %s)" if signed else "(N.eqb %s %s)") % (a, b)
                return (t if op == "==" else "(negb %s)" % t), ("bool",)
            self.fail("unsupported operator %s" % op)
        if k == "arrayrep":
            elem, ety = self.expr(e[1], out)
            n, nty = self.expr(e[2], out)
            if ety != ("lit",) or not self.is_usize(nty):
                self.fail("unsupported array expression")
            return "(repeat %s (N.to_nat %s))" % (elem, n), ("bytes",)
        if k == "call":
            return self.call(e, out)
        if k == "mcall":
            return self.mcall(e, out)
        if k == "if":
            return self.if_value(e, out)
        self.fail("unsupported expression %s" % k)

    def call(self, e, out):
        f, args = e[1], e[2]
        if f[0] == "tpath" and f[1] == ["std", "mem", "size_of"] and len(f[2]) == 1 and not args:
            tname = f[2][0]                      # any fixed-width integer type (no Serializable impl is needed here)
            ty = ("int", tname) if tname in INT_WIDTH else self.resolve_type(tname)
            return str(self.width(ty)), SI_USIZE
        if f == ("var", "Some") and len(args) == 1:
            v, ty = self.expr(args[0], out)
            return "(Some %s)" % v, ("opt", ty)
        if f[0] == "path" and len(f[1]) == 2:
            tname, m = f[1]
            if m == "size_of" and not args:
                ty = self.resolve_type(tname)
                return self.bind_res(out, self.fn_of(ty, "size_of")), ("opt", SI_USIZE)
            if tname == "Self" and m == "from_le_bytes" and len(args) == 1 and self.self_ty[0] == "int":
                v, ty = self.expr(args[0], out)
                if ty != ("bytes",):
                    self.fail("from_le_bytes of a non-byte-array")
                sg = "sint" if self.self_ty[1].startswith("i") else "uint"
                return "(%s_of_le %d %s)" % (sg, self.width(self.self_ty), v), self.self_ty
            if tname == "Self" and m == "with_capacity" and len(args) == 1 and self.self_ty[0] == "vec":
                scratch = []
                _, ty = self.expr(args[0], scratch)
                if scratch or not self.is_usize(ty):
                    self.fail("unsupported with_capacity argument")
                return "[]", self.self_ty
        if self.result_call(e, []) is not None:
            self.fail("a Result that is neither propagated by `?` nor returned")
        self.fail("unsupported call")

    def closure(self, clo, ptys, out_mode_res=True):
        """(parameter names, body term as a monadic term in the current monad returning the body value, type)"""
        if clo[0] != "closure" or len(clo[1]) != len(ptys):
            self.fail("expected a closure with %d parameter(s)" % len(ptys))
        saved = dict(self.env)
        for p, ty in zip(clo[1], ptys):
            if p in self.env:
                self.fail("closure parameter %s shadows a variable" % p)
            self.env[p] = ty
        items = []
        v, ty = self.expr(clo[2], items)
        self.env = saved
        return [si_ident(p) for p in clo[1]], self.finish(items, v), ty

    def finish(self, items, v):
        """monadic term computing the pure term v after the items (in the current monad)"""
        if items and items[-1][0] == "res" and items[-1][1] == v and self.mode == "res":
            return si_render(items[:-1], items[-1][2])
        return si_render(items, ("Ok %s" if self.mode == "res" else "ok %s") % v)

    def bind_here(self, out, term):
        t = self.fresh()
        out.append(("res" if self.mode == "res" else "rio", t, term))
        return t

    def mcall(self, e, out):
        recv, name, args = e[1], e[2], e[3]
        if name in ("write_all", "read_exact", "serialize_into"):
            self.fail("a Result that is neither propagated by `?` nor returned")
        v, ty = self.expr(recv, out)
        if name == "size_in_bytes" and not args:
            if ty == ("lit",):
                self.fail("size_in_bytes of an untyped literal")
            return self.bind_res(out, "%s %s" % (self.fn_of(ty, "size_in_bytes"), v)), SI_USIZE
        if name == "to_le_bytes" and not args and ty[0] == "int":
            sg = "sint" if ty[1].startswith("i") else "uint"
            return "(%s_to_le %d %s)" % (sg, self.width(ty), v), ("bytes",)
        if name == "len" and not args and ty[0] == "vec":
            return "(lenN %s)" % v, SI_USIZE
        if name == "as_ref" and not args and ty[0] == "opt":
            return v, ty
        if name == "iter" and not args and ty[0] == "vec":
            return v, ty
        if name == "unwrap" and not args and ty[0] == "opt":
            return self.bind_res(out, "unwrap %s" % v), ty[1]
        if name == "fold" and len(args) == 2 and ty[0] == "vec":
            if self.mode != "res":
                self.fail("fold inside a function returning a Result")
            init, ity = self.expr(args[0], out)
            if not self.is_usize(ity):
                self.fail("fold over a non-usize accumulator")
            ps, body, bty = self.closure(args[1], [SI_USIZE, ty[1]])
            if not self.is_usize(bty):
                self.fail("fold closure does not return usize")
            term = "fold_res (fun %s %s =>\n%s\n  ) %s %s" % (ps[0], ps[1], indent(body, 4), v, init)
            return self.bind_res(out, term), SI_USIZE
        if name == "map_or" and len(args) == 2 and ty[0] == "opt":
            d, dty = self.expr(args[0], out)
            ps, body, bty = self.closure(args[1], [ty[1]])
            if not (self.is_usize(dty) and self.is_usize(bty)):
                self.fail("map_or with non-usize results")
            wrap = "Ok %s" if self.mode == "res" else "ok %s"
            term = "match %s with\n| None => %s\n| Some %s =>\n%s\nend" % (v, wrap % d, ps[0], indent(body, 4))
            return self.bind_here(out, term), SI_USIZE
        if name == "map_or_else" and len(args) == 2 and ty[0] == "opt":
            _, nbody, nty = self.closure(args[0], [])
            ps, sbody, sty = self.closure(args[1], [ty[1]])
            if not (self.is_usize(nty) and self.is_usize(sty)):
                self.fail("map_or_else with non-usize results")
            term = "match %s with\n| None =>\n%s\n| Some %s =>\n%s\nend" % (v, indent(nbody, 4), ps[0], indent(sbody, 4))
            return self.bind_here(out, term), SI_USIZE
        self.fail("unsupported method %s on a value of type %s" % (name, ty[0]))

    # -- joins --------------------------------------------------------------------------------
    def assigned(self, node):
        """outer variables a statement / block / expression assigns (a stream that is mentioned counts)"""
        found = set()

        def visit(n):
            if isinstance(n, (list, tuple)):
                if n and isinstance(n, tuple) and isinstance(n[0], str):
                    if n[0] == "assign" and n[1] in self.env:
                        found.add(n[1])
                    if n[0] == "mcall" and n[1][0] == "var" and n[2] == "push" and n[1][1] in self.env:
                        found.add(n[1][1])
                    if n[0] == "refmut" and n[1][0] == "var" and n[1][1] in self.env:
                        found.add(n[1][1])
                    if n[0] == "var" and self.env.get(n[1], (None,))[0] in ("writer", "reader"):
                        found.add(n[1])
                    if n[0] in ("let", "lettuple") and (n[1] in self.env if n[0] == "let" else set(n[1]) & set(self.env)):
                        self.fail("a nested `let` shadows an outer variable")
                for x in n:
                    visit(x)
        visit(node)
        return [n for n in self.env if n in found]

    def branch(self, blk, names, with_value):
        """a block as a monadic term returning (value?, names..)"""
        if blk[0] != "block":
            self.fail("expected a block")
        saved = dict(self.env)
        items = []
        self.stmts(blk[1], items)
        vals = []
        vty = None
        if with_value:
            if blk[2] is None:
                self.fail("a branch without a value")
            v, vty = self.expr(blk[2], items)
            vals.append(v)
        elif blk[2] is not None:
            self.stmt(("expr", blk[2]), items)
        self.env = saved
        return self.finish(items, si_tuple(vals + [si_ident(n) for n in names])), vty

    def join(self, out, names, term, value=None):
        pats = ([value] if value else []) + [si_ident(n) for n in names]
        out.append(("res" if self.mode == "res" else "rio", si_tuple(pats) if pats else "_", term))

    def if_value(self, e, out):
        """`if cond { .. v1 } else { .. v2 }` as a value (effects in the condition come first)"""
        cond, cty = self.expr(e[1], out)
        if cty != ("bool",) or e[3] is None:
            self.fail("unsupported `if` expression")
        names = [n for n in self.env if n in set(self.assigned(e[2]) + self.assigned(e[3]))]
        a, aty = self.branch(e[2], names, True)
        b, bty = self.branch(e[3], names, True)
        if aty[0] == "opt" and bty[0] == "opt" and (aty[1] is None or bty[1] is None or aty == bty):
            ty = aty if aty[1] is not None else bty
        elif aty == bty:
            ty = aty
        else:
            self.fail("the branches of an `if` have different types")
        t = self.fresh()
        self.join(out, names, "if %s then (\n%s\n) else (\n%s\n)" % (cond, indent(a), indent(b)), t)
        return t, ty

    # -- statements ---------------------------------------------------------------------------
    def stmts(self, stmts, out):
        for s in stmts:
            self.stmt(s, out)

    def stmt(self, s, out):
        k = s[0]
        if k == "let":
            if s[1] == "_":
                self.fail("`let _ =` discards a value")
            v, ty = self.expr(s[3], out)
            if ty[0] == "opt" and ty[1] is None:
                self.fail("cannot type `None` here")
            if ty == ("lit",):
                ty = SI_USIZE
            if ty == ("unit",):
                self.fail("`let` of a unit value")
            self.env[s[1]] = ty
            if v != si_ident(s[1]):
                out.append(("let", si_ident(s[1]), v))
            return
        if k == "assign":
            name, op, rhs = s[1], s[2], s[3]
            if name not in self.env or op != "+" or self.env[name] != SI_USIZE:
                self.fail("unsupported assignment to %s" % name)
            v, ty = self.expr(rhs, out)
            if not self.is_usize(ty):
                self.fail("`+=` of a non-usize value")
            out.append(("res", si_ident(name), "add c %s %s" % (si_ident(name), v)))
            return
        if k == "expr":
            e = s[1]
            if e[0] == "try":
                v, ty = self.try_expr(e[1], out)
                if ty != ("unit",):
                    self.fail("the value of a `?` expression is dropped")
                return
            if e[0] == "mcall" and e[2] == "push" and e[1][0] == "var" and self.env.get(e[1][1], (None,))[0] == "vec" \
                    and len(e[3]) == 1:
                v, ty = self.expr(e[3][0], out)
                if ty != self.env[e[1][1]][1]:
                    self.fail("push of a value of the wrong type")
                n = si_ident(e[1][1])
                out.append(("let", n, "%s ++ [%s]" % (n, v)))
                return
            if e[0] == "iflet":
                return self.iflet_stmt(e, out)
            if e[0] == "for":
                return self.for_stmt(e, out)
            self.fail("unsupported statement %s" % e[0])
        self.fail("unsupported statement %s" % k)

    def iflet_stmt(self, e, out):
        _, x, scrut, then, els = e
        v, ty = self.expr(scrut, out)
        if ty[0] != "opt" or ty[1] is None or x in self.env:
            self.fail("unsupported `if let`")
        names = [n for n in self.env if n in set(self.assigned(then) + (self.assigned(els) if els else []))]
        self.env[x] = ty[1]
        a, _ = self.branch(then, names, False)
        del self.env[x]
        if els is not None:
            b, _ = self.branch(els, names, False)
        else:
            b = self.finish([], si_tuple([si_ident(n) for n in names]))
        self.join(out, names, "match %s with\n| Some %s =>\n%s\n| None =>\n%s\nend" % (v, si_ident(x), indent(a, 4), indent(b, 4)))

    def for_stmt(self, e, out):
        _, pat, it, body = e
        if self.mode != "rio":
            self.fail("`for` inside a function that does not return a Result")
        if isinstance(pat, tuple):
            self.fail("tuple pattern in `for`")
        if it[0] == "bin" and it[1] == "..":
            a, aty = self.expr(it[2], out)
            b, bty = self.expr(it[3], out)
            if not (self.is_usize(aty) and self.is_usize(bty)):
                self.fail("range over non-usize bounds")
            lst, ety = "(nrange %s %s)" % (a, b), SI_USIZE
        else:
            lst, lty = self.expr(it, out)
            if lty[0] != "vec":
                self.fail("`for` over an unsupported iterator")
            ety = lty[1]
        if pat is not None and pat in self.env:
            self.fail("loop variable %s shadows a variable" % pat)
        names = self.assigned(body)
        if pat is not None:
            self.env[pat] = ety
        step, _ = self.branch(body, names, False)
        if pat is not None:
            del self.env[pat]
        st = si_tuple([si_ident(n) for n in names])
        pst = ("'" + st) if st.startswith("(") else st
        term = "fold_rio (fun %s %s =>\n%s\n  ) %s %s" % (pst, si_ident(pat) if pat else "_", indent(step, 4), lst, st)
        self.join(out, names, term)

    # -- the function ----------------------------------------------------------------------------
    def tail(self, e, out):
        """the value of the function (type Result<_> in rio mode)"""
        if self.mode == "res":
            v, ty = self.expr(e, out)
            want = ("opt", SI_USIZE) if self.method == "size_of" else SI_USIZE
            if not (ty == want or (want == SI_USIZE and ty == ("lit",)) or (want[0] == "opt" and ty == ("opt", None))
                    or (want[0] == "opt" and ty[0] == "opt" and self.is_usize(ty[1]))):
                self.fail("the result has the wrong type")
            return self.finish(out, v)
        s = si_ident(self.stream)
        ser = self.method == "serialize_into"
        want = SI_USIZE if ser else self.self_ty

        def pack(v):
            return "ok (%s, %s)" % ((s, v) if ser else (v, s))

        def check(ty):
            if not (ty == want or (want == SI_USIZE and ty == ("lit",))):
                self.fail("the result has the wrong type")

        if e[0] == "call" and e[1] == ("var", "Ok") and len(e[2]) == 1:
            v, ty = self.expr(e[2][0], out)
            check(ty)
            return si_render(out, pack(v))
        if e[0] == "mcall" and e[2] == "map" and len(e[3]) == 1:
            rc = self.result_call(e[1], out)
            if rc is None or rc[0] != ("ser" if ser else "deser") or rc[3] != self.stream:
                self.fail("unsupported Result::map")
            t = self.fresh()
            out.append(("rio", "(%s, %s)" % ((s, t) if ser else (t, s)), rc[1]))
            clo = e[3][0]
            if clo[0] != "closure" or len(clo[1]) != 1 or clo[1][0] in self.env:
                self.fail("unsupported closure in Result::map")
            self.env[clo[1][0]] = rc[2]
            out.append(("let", si_ident(clo[1][0]), t))
            v, ty = self.expr(clo[2], out)
            check(ty)
            return si_render(out, pack(v))
        rc = self.result_call(e, out)
        if rc is not None:
            if rc[0] != ("ser" if ser else "deser") or rc[3] != self.stream:
                self.fail("the returned Result is not of this function's kind")
            check(rc[2])
            return si_render(out, rc[1])
        self.fail("unsupported result expression")

    def run(self, params_src, body_src):
        kind = rp.self_kind(params_src)
        tps = rp.typed_params(params_src)
        if self.method == "serialize_into":
            if kind != "ref" or len(tps) != 1:
                self.fail("unexpected parameters")
            self.env["self"] = self.self_ty
            self.env[tps[0][0]] = ("writer",)
            self.stream = tps[0][0]
        elif self.method == "deserialize_from":
            if kind != "static" or len(tps) != 1:
                self.fail("unexpected parameters")
            self.env[tps[0][0]] = ("reader",)
            self.stream = tps[0][0]
        elif self.method == "size_in_bytes":
            if kind != "ref" or tps:
                self.fail("unexpected parameters")
            self.env["self"] = self.self_ty
        else:
            if kind != "static" or tps:
                self.fail("unexpected parameters")
        try:
            blk = rp.parse_fn_body(body_src)
        except ParseError as ex:
            self.fail(str(ex))
        if blk[2] is None:
            self.fail("the body has no result expression")
        out = []
        self.stmts(blk[1], out)
        return self.tail(blk[2], out)


class SerialImplGen:
    def __init__(self, repo):
        self.ser_src = rp.strip_tests(open(os.path.join(repo, "src/serial.rs")).read())
        self.prim_src = rp.strip_tests(open(os.path.join(repo, "src/serial/primitive.rs")).read())
        for name, src in (("serial.rs", self.ser_src), ("serial/primitive.rs", self.prim_src)):
            if not re.search(r'^#!\[cfg\(target_pointer_width\s*=\s*"64"\)\]', src, re.M):
                raise ParseError("%s is no longer restricted to 64-bit targets (usize = 8 bytes is assumed)" % name)
        self.defined = set()
        self.defs = []
        self.dicts = []

    @staticmethod
    def carrier(ty):
        if ty[0] == "int":
            return "Z" if ty[1].startswith("i") else "N"
        if ty[0] == "bool":
            return "bool"
        if ty[0] == "param":
            return "A"
        return "(%s %s)" % ("list" if ty[0] == "vec" else "option", SerialImplGen.carrier(ty[1]))

    def trait_default_size_of(self):
        m = re.search(r"pub trait Serializable\s*:\s*Sized\s*\{", self.ser_src)
        if not m:
            raise ParseError("trait Serializable not found")
        b0 = m.end() - 1
        body = strip_line_comments(self.ser_src[b0:rp.find_matching(self.ser_src, b0) + 1])
        fns = {n: (p, r, b) for n, p, r, b, _ in rp.functions(body)}
        if set(fns) != {"size_of"}:
            raise ParseError("trait Serializable: the provided methods are no longer exactly {size_of}")
        return fns["size_of"]

    def impl(self, owner, coqname, self_ty, tparam, body, default_size_of):
        fns = {n: (p, r, b) for n, p, r, b, _ in rp.functions(body)}
        for n in fns:
            if n not in SI_METHODS:
                raise ParseError("impl Serializable for %s: unexpected method %s" % (owner, n))
        if "size_of" not in fns:
            fns["size_of"] = default_size_of
        generic = tparam is not None
        for meth in SI_METHODS:
            if meth not in fns:
                raise ParseError("impl Serializable for %s: missing %s" % (owner, meth))
            params, ret, fbody = fns[meth]
            want_ret, bound = SI_SIGS[meth]
            if norm(ret) != want_ret:
                raise ParseError("impl Serializable for %s, %s: unexpected return type %s" % (owner, meth, norm(ret)))
            if bound:
                tp = rp.typed_params(params)
                if len(tp) != 1 or not re.search(r"fn\s+%s\s*<\s*%s\s*:\s*%s\s*>\s*\(" % (meth, re.escape(tp[0][1]), bound), body):
                    raise ParseError("impl Serializable for %s, %s: the stream parameter is not a `%s`" % (owner, meth, bound))
            term = SerialImplFn(self, owner, self_ty, meth, tparam).run(params, fbody)
            io = meth in ("serialize_into", "deserialize_from")
            binders = "{Wr Rd%s : Type} " % (" A" if generic else "") if (io or generic) else ""
            if io:
                binders += "(io : io_ops Wr Rd) "
            binders += "(c : cfg)"
            if generic:
                binders += " (dS : serdict Wr Rd A)"
            car = self.carrier(self_ty)
            if meth == "serialize_into":
                sig = "%s (self : %s) (%s : Wr) : rio (Wr * N)" % (binders, car, si_ident(rp.typed_params(params)[0][0]))
            elif meth == "deserialize_from":
                sig = "%s (%s : Rd) : rio (%s * Rd)" % (binders, si_ident(rp.typed_params(params)[0][0]), car)
            elif meth == "size_in_bytes":
                sig = "%s (self : %s) : res N" % (binders, car)
            else:
                sig = "%s : res (option N)" % binders
            self.defs.append("Definition %s_%s %s :=\n%s." % (coqname, meth, sig, indent(term)))
        ds = " dS" if generic else ""
        self.defs.append(
            "Definition %s_dict {Wr Rd%s : Type} (io : io_ops Wr Rd) (c : cfg)%s : serdict Wr Rd %s :=\n"
            "  {| sd_ser := %s_serialize_into io c%s; sd_deser := %s_deserialize_from io c%s;\n"
            "     sd_size := %s_size_in_bytes c%s; sd_size_of := %s_size_of c%s |}."
            % (coqname, " A" if generic else "", " (dS : serdict Wr Rd A)" if generic else "", self.carrier(self_ty),
               coqname, ds, coqname, ds, coqname, ds, coqname, ds))
        self.defined.add(coqname)
        self.dicts.append(coqname)

    def run(self):
        default_size_of = self.trait_default_size_of()
        # primitives: the macro body, once per invocation
        prim = strip_line_comments(self.prim_src)
        m = re.search(r"macro_rules!\s*common_def\s*\{\s*\(\s*\$([a-z]+)\s*:\s*ident\s*\)\s*=>\s*\{", prim)
        if not m:
            raise ParseError("macro common_def not found (or no longer of the form `($int:ident) => {..}`)")
        var = m.group(1)
        b0 = m.end() - 1
        b1 = rp.find_matching(prim, b0)
        mbody = prim[b0 + 1:b1]
        rest = prim[:m.start()] + prim[rp.find_matching(prim, prim.index("{", m.start())) + 1:]
        invs = re.findall(r"\bcommon_def!\s*\(\s*(\w+)\s*\)\s*;", rest)
        if len(invs) != len(set(invs)):
            raise ParseError("common_def! invoked twice for one type")
        for t in invs:
            if t not in INT_WIDTH:
                raise ParseError("common_def!(%s): not a fixed-width integer type" % t)
            src = re.sub(r"\$%s\b" % var, t, mbody)
            if "$" in src:
                raise ParseError("macro common_def: unsupported macro syntax")
            blocks = rp.impl_blocks_any(src)
            if len(blocks) != 1 or norm(blocks[0][3]) != "impl Serializable for %s" % t:
                raise ParseError("macro common_def no longer expands to one `impl Serializable for $%s`" % var)
            self.impl(t, t, ("int", t), None, blocks[0][2], default_size_of)
        # bool
        others = rp.impl_blocks_any(rest)
        if [norm(b[3]) for b in others] != ["impl Serializable for bool"]:
            raise ParseError("serial/primitive.rs: expected exactly one impl outside the macro (Serializable for bool)")
        self.impl("bool", "bool", ("bool",), None, others[0][2], default_size_of)
        # Option<S>, Vec<S>
        ser = strip_line_comments(self.ser_src)
        blocks = rp.impl_blocks_any(ser)
        if [(b[0], b[1]) for b in blocks] != [("Serializable", "Option"), ("Serializable", "Vec")]:
            raise ParseError("serial.rs: expected exactly the impls of Serializable for Option<S> and Vec<S>")
        for trait, tname, body, header in blocks:
            hm = re.fullmatch(r"impl\s*<\s*([A-Z])\s*>\s*Serializable\s+for\s+%s\s*<\s*([A-Z])\s*>\s*where\s+([A-Z])\s*:\s*Serializable\s*,?"
                              % tname, norm(header))
            if not hm or len({hm.group(1), hm.group(2), hm.group(3)}) != 1:
                raise ParseError("impl Serializable for %s: unexpected header %r" % (tname, norm(header)))
            tp = hm.group(1)
            kind = "opt" if tname == "Option" else "vec"
            self.impl("%s<%s>" % (tname, tp), "option" if kind == "opt" else "vec", (kind, ("param", tp)), tp, body,
                      default_size_of)
        return self.defs


SERIALIMPL_HEADER = """(* GENERATED by tools/translate.py from the generic `impl Serializable` blocks of src/serial.rs (Option<S>, Vec<S>)
   and src/serial/primitive.rs (macro common_def! once per integer type, bool) -- do not edit.
   Vocabulary: Base/SerialDict.v.  Proofs/SerialImplTie.v proves that these definitions, instantiated along any
   FormatSpec.ty, compute FormatSpec.ser / deser / size / fixed_size. *)
From Sucds Require Import Base.Res Base.Loops Spec.FormatSpec Base.SerialDict.
Open Scope N_scope.
"""


def gen_serialimpl(repo):
    g = SerialImplGen(repo)
    try:
        defs = g.run()
    except (TypeError, AttributeError) as ex:        # a shape of syntax tree the walker does not expect
        raise ParseError("generic Serializable impls: unsupported syntax (%s)" % ex)
    tail = "(* dictionaries: %s *)" % ", ".join(d + "_dict" for d in g.dicts)
    return SERIALIMPL_HEADER + "\n" + "\n\n".join(defs) + "\n\n" + tail + "\n"


# ---------------------------------------------------------------------------------------------
# fingerprints
# ---------------------------------------------------------------------------------------------

def gen_fingerprints(repo):
    """hash of the normalised token stream (comments, whitespace and the #[cfg(test)] module removed) of every
    source file; used by ./check for change-directed depth: a property whose anchored files changed since the
    models were written is searched with larger generators"""
    fp = {}
    for root, _, files in os.walk(os.path.join(repo, "src")):
        for f in sorted(files):
            if not f.endswith(".rs"):
                continue
            path = os.path.join(root, f)
            rel = os.path.relpath(path, repo)
            src = rp.strip_tests(open(path).read())
            src = re.sub(r"^\s*//[/!].*$", "", src, flags=re.M)     # doc comments
            try:
                fp[rel] = hashlib.sha256(rp.normalized_tokens(src).encode()).hexdigest()[:16]
            except ParseError as ex:
                fp[rel] = "untokenizable: %s" % ex
    return json.dumps(fp, indent=1, sort_keys=True) + "\n"


def trait_impl_listing(repo):
    """{file: {"Trait for Type": [method names]}} for every `impl Trait for Type` block outside the test modules
    (token based: comments and strings cannot confuse it)"""
    res = {}
    for root, _, files in os.walk(os.path.join(repo, "src")):
        for f in sorted(files):
            if not f.endswith(".rs"):
                continue
            path = os.path.join(root, f)
            rel = os.path.relpath(path, repo)
            toks = rp.tokenize(rp.strip_tests(open(path).read()))
            i, n = 0, len(toks)
            while i < n:
                if toks[i] == ("id", "impl"):
                    j = i + 1
                    while j < n and toks[j] != ("op", "{") and toks[j] != ("op", ";"):
                        j += 1
                    header = [str(v) for _, v in toks[i + 1:j]]
                    if j >= n or toks[j] == ("op", ";"):
                        i = j + 1
                        continue
                    depth, k, names = 0, j, []
                    while k < n:
                        if toks[k] == ("op", "{"):
                            depth += 1
                        elif toks[k] == ("op", "}"):
                            depth -= 1
                            if depth == 0:
                                break
                        elif depth == 1 and toks[k] == ("id", "fn") and k + 1 < n and toks[k + 1][0] == "id":
                            names.append(toks[k + 1][1])
                        k += 1
                    if "for" in header:
                        h = " ".join(header)
                        h = re.sub(r"\bwhere\b.*$", "", h).strip()
                        if h.startswith("<"):                     # generic parameter list of the impl
                            d, q = 0, 0
                            for q, ch in enumerate(h.split(" ")):
                                d += ch.count("<") - ch.count(">")
                                if ch == "<<":
                                    d += 1
                                if ch == ">>":
                                    d -= 1
                                if d == 0:
                                    break
                            h = " ".join(h.split(" ")[q + 1:])
                        h = re.sub(r"' [a-z_]+", "'_", h)
                        res.setdefault(rel, {})[h] = sorted(names)
                    i = k + 1
                else:
                    i += 1
    return res


BEHAVIOURAL_TRAITS = {"Iterator", "IntoIterator", "Extend", "PartialEq", "Eq", "Default", "Deref", "DerefMut", "Serializable",
                      "Build", "NumBits", "Access", "Rank", "Select", "NumVals"}


def gen_traitimpls(repo):
    """The models describe the methods a trait impl defines; the provided (default) methods of the trait are whatever
    the trait declares (for `Iterator`: nth, count, last, fold, ... derived from `next`).  A method added to or removed
    from a trait impl changes behaviour no regenerated function shows, so the set of methods of every trait impl is
    compared with the one the models were written against (tools/trait_impls_baseline.json)."""
    cur = trait_impl_listing(repo)
    here = os.path.dirname(os.path.abspath(__file__))
    base = json.load(open(os.path.join(here, "trait_impls_baseline.json")))
    diffs = []
    for f in sorted(set(cur) | set(base)):
        a, b = base.get(f, {}), cur.get(f, {})
        for h in sorted(set(a) | set(b)):
            if h not in b:
                diffs.append("%s: `impl %s` disappeared" % (f, h))
            elif h not in a:
                # a new impl of a trait the modelled behaviour does not go through (Display, Clone, Hash, From, ..)
                # changes nothing that exists; one of the traits below does
                trait = re.sub(r"\s*<.*$", "", h.split(" for ")[0]).split("::")[-1].strip()
                if trait in BEHAVIOURAL_TRAITS:
                    diffs.append("%s: new `impl %s` {%s}" % (f, h, ", ".join(b[h])))
            elif a[h] != b[h]:
                added = sorted(set(b[h]) - set(a[h]))
                gone = sorted(set(a[h]) - set(b[h]))
                diffs.append("%s: `impl %s`%s%s" % (f, h, " now also defines " + ", ".join(added) if added else "",
                                                    " no longer defines " + ", ".join(gone) if gone else ""))
    if diffs:
        raise ParseError("trait impls differ from the modelled ones (an overridden provided method is not derived from the "
                         "regenerated functions any more): " + "; ".join(diffs))
    return json.dumps(cur, indent=1, sort_keys=True) + "\n"


def write_if_changed(path, content):
    old = None
    if os.path.exists(path):
        old = open(path).read()
    if old != content:
        os.makedirs(os.path.dirname(path), exist_ok=True)
        with open(path, "w") as f:
            f.write(content)
        return True
    return False


def main():
    repo = os.environ.get("VERIF_REPO", "/repo")
    here = os.path.dirname(os.path.dirname(os.path.abspath(__file__)))
    outdir = os.path.join(os.environ.get("VERIF_COQ_DIR") or os.path.join(here, "coq"), "gen")
    which = sys.argv[1:] or ["broadword", "consts", "serial", "serialimpl", "methods", "loops", "traitimpls", "fingerprints"]
    status = 0
    gens = {"broadword": ("BroadwordGen.v", gen_broadword), "consts": ("ConstsGen.v", gen_consts),
            "serial": ("SerialGen.v", gen_serial), "serialimpl": ("SerialImplGen.v", gen_serialimpl),
            "methods": ("MethodsGen.v", gen_methods),
            "loops": ("LoopsGen.v", gen_loops),
            "traitimpls": ("trait_impls.json", gen_traitimpls),
            "fingerprints": ("fingerprints.json", gen_fingerprints)}
    for w in which:
        fname, fn = gens[w]
        try:
            content = fn(repo)
        except (ParseError, OSError, ValueError, IndexError, KeyError) as ex:
            print("TRANSLATE-ERROR %s: %s" % (w, ex))
            status = 2
            continue
        changed = write_if_changed(os.path.join(outdir, fname), content)
        print("translate %s: %s" % (fname, "rewritten" if changed else "unchanged"))
    sys.exit(status)


if __name__ == "__main__":
    main()
