#!/usr/bin/env python3
"""Tie 1 (DESIGN.md section 5.1): regenerate coq/gen/*.v from the Rust sources under $VERIF_REPO.

  gen/BroadwordGen.v  all of src/broadword.rs and src/intrinsics.rs as monadic Gallina
  gen/ConstsGen.v     structural constants of the hand-modelled modules
  gen/SerialGen.v     struct layouts and the three method bodies of every `impl Serializable`
  gen/fingerprints.json  hash of the normalised token stream of every non-test Rust function

Files are rewritten only when their content changes (so `make` sees stable timestamps).
Exit status 0 = generated; 2 = source outside the supported subset (tie cannot be established).
"""
import hashlib
import json
import os
import re
import sys

sys.path.insert(0, os.path.dirname(os.path.abspath(__file__)))
import rustparse as rp
from rustparse import ParseError

W = 1 << 64


# ---------------------------------------------------------------------------------------------
# constants
# ---------------------------------------------------------------------------------------------

def const_eval(e, env):
    k = e[0]
    if k == "num":
        return e[1]
    if k == "var":
        if e[1] in env:
            return env[e[1]]
        raise ParseError("unknown constant %s" % e[1])
    if k == "path":
        if e[1] == ["usize", "MAX"]:
            return W - 1
        if e[1] == ["u16", "MAX"]:
            return 65535
        raise ParseError("unsupported path %s" % "::".join(e[1]))
    if k == "un" and e[1] == "!":
        return (W - 1) ^ const_eval(e[2], env)
    if k == "bin":
        a, b = const_eval(e[2], env), const_eval(e[3], env)
        op = e[1]
        if op == "+":
            r = a + b
        elif op == "-":
            r = a - b
        elif op == "*":
            r = a * b
        elif op == "/":
            if b == 0:
                raise ParseError("constant division by zero")
            r = a // b
        elif op == "<<":
            if b >= 64:
                raise ParseError("constant shift overflow")
            r = a << b
            if r >= W:
                r %= W  # rustc: bits shifted out are dropped (no overflow error for value bits)
        elif op == ">>":
            if b >= 64:
                raise ParseError("constant shift overflow")
            r = a >> b
        elif op == "|":
            r = a | b
        elif op == "&":
            r = a & b
        elif op == "^":
            r = a ^ b
        else:
            raise ParseError("unsupported constant operator %s" % op)
        if not (0 <= r < W):
            raise ParseError("constant expression overflows usize (rustc would reject it)")
        return r
    if k == "call" and e[1] == ("path", ["std", "mem", "size_of"]):
        raise ParseError("size_of without turbofish")
    if k == "cast":
        return const_eval(e[1], env)
    raise ParseError("unsupported constant expression %r" % (e,))


def eval_const_src(init_src, env):
    s = init_src.strip()
    # std::mem::size_of::<usize>() is 8 on the only supported target (pointer width 64)
    s = re.sub(r"std::mem::size_of::<usize>\(\)", "8", s)
    return const_eval(rp.parse_const_expr(s), env)


# ---------------------------------------------------------------------------------------------
# broadword.rs / intrinsics.rs -> monadic Gallina
# ---------------------------------------------------------------------------------------------

ARITH = {"+": "add c", "-": "sub c", "*": "mul c", "<<": "shl c", ">>": "shr c"}
BITOPS = {"&": "N.land", "|": "N.lor", "^": "N.lxor"}
CMPS = {"==": "N.eqb %s %s", "!=": "negb (N.eqb %s %s)", "<": "N.ltb %s %s", "<=": "N.leb %s %s",
        ">": "N.ltb %s %s", ">=": "N.leb %s %s"}
METHODS = {"wrapping_mul": ("wmul", 1), "wrapping_shl": ("wshl", 1),
           "count_ones": ("popcN", 0), "trailing_zeros": ("ctz64", 0), "leading_zeros": ("clz64", 0)}


class FnTranslator:
    def __init__(self, consts, tables, fns, prefix=""):
        self.consts = consts      # name -> value
        self.tables = tables      # name -> list
        self.fns = fns            # rust name -> coq name
        self.counter = 0

    def fresh(self):
        self.counter += 1
        return "t%d" % self.counter

    # returns a *pure* Coq term; effectful subterms are bound in `out` (list of lines)
    def expr(self, e, out):
        k = e[0]
        if k == "num":
            return str(e[1])
        if k == "var":
            return e[1]
        if k == "path":
            if e[1] == ["usize", "MAX"]:
                return "MASK64"
            raise ParseError("unsupported path %s" % "::".join(e[1]))
        if k == "cast":
            if e[2] != "usize":
                raise ParseError("unsupported cast to %s" % e[2])
            return self.expr(e[1], out)
        if k == "un":
            if e[1] == "!":
                return "(not64 %s)" % self.expr(e[2], out)
            raise ParseError("unsupported unary %s" % e[1])
        if k == "bin":
            op = e[1]
            a = self.expr(e[2], out)
            b = self.expr(e[3], out)
            if op in ARITH:
                t = self.fresh()
                out.append("%s <- %s %s %s ;;" % (t, ARITH[op], a, b))
                return t
            if op in BITOPS:
                return "(%s %s %s)" % (BITOPS[op], a, b)
            if op in CMPS:
                if op in (">", ">="):
                    a, b = b, a
                return "(" + CMPS[op] % (a, b) + ")"
            raise ParseError("unsupported operator %s" % op)
        if k == "mcall":
            if e[2] not in METHODS:
                raise ParseError("unsupported method .%s()" % e[2])
            name, arity = METHODS[e[2]]
            if len(e[3]) != arity:
                raise ParseError("wrong arity for .%s()" % e[2])
            args = [self.expr(e[1], out)] + [self.expr(a, out) for a in e[3]]
            return "(%s %s)" % (name, " ".join(args))
        if k == "index":
            if e[1][0] != "var" or e[1][1] not in self.tables:
                raise ParseError("indexing something that is not a constant table")
            i = self.expr(e[2], out)
            t = self.fresh()
            out.append("%s <- idx 0 %s %s ;;" % (t, e[1][1], i))
            return t
        if k == "call":
            f = e[1]
            if f == ("var", "Some"):
                return "(Some %s)" % self.expr(e[2][0], out)
            if f[0] == "var":
                name = f[1]
            elif f[0] == "path":
                name = "_".join(f[1])
            else:
                raise ParseError("unsupported callee")
            if name not in self.fns:
                raise ParseError("call to unknown function %s" % name)
            args = [self.expr(a, out) for a in e[2]]
            t = self.fresh()
            out.append("%s <- %s c %s ;;" % (t, self.fns[name], " ".join(args)))
            return t
        if k in ("block", "if", "cfgsel"):
            t = self.fresh()
            out.append("%s <- (%s) ;;" % (t, self.res_expr(e)))
            return t
        raise ParseError("unsupported expression %r" % (e,))

    def pure_or_none(self, e):
        if e == ("var", "None"):
            return "None"
        return None

    # Coq term of type `res T` for an expression in tail position
    def res_expr(self, e):
        k = e[0]
        if k == "block":
            return self.block(e[1], e[2])
        if k == "if":
            out = []
            cond = self.expr(e[1], out)
            if e[3] is None:
                raise ParseError("if without else in value position")
            return "\n".join(out + ["if %s then (%s) else (%s)" % (cond, self.res_expr(e[2]), self.res_expr(e[3]))])
        if k == "cfgsel":
            return "if intr c then (%s) else (%s)" % (self.res_expr(e[1]), self.res_expr(e[2]))
        if e == ("var", "None"):
            return "Ok None"
        out = []
        t = self.expr(e, out)
        return "\n".join(out + ["Ok %s" % t])

    def block(self, stmts, tail):
        if not stmts:
            if tail is None:
                raise ParseError("block without value")
            return self.res_expr(tail)
        s, rest = stmts[0], stmts[1:]
        k = s[0]
        if k == "let":
            out = []
            t = self.expr(s[3], out)
            return "\n".join(out + ["let %s := %s in" % (s[1], t), self.block(rest, tail)])
        if k == "assign":
            rhs = s[3] if s[2] is None else ("bin", s[2], ("var", s[1]), s[3])
            out = []
            t = self.expr(rhs, out)
            return "\n".join(out + ["let %s := %s in" % (s[1], t), self.block(rest, tail)])
        if k == "return":
            if rest or tail is not None:
                raise ParseError("code after return")
            return self.res_expr(s[1])
        if k == "expr":
            e = s[1]
            if e[0] == "macro":
                if e[1] not in ("debug_assert",):
                    raise ParseError("unsupported macro %s!" % e[1])
                out = []
                cond = self.expr(e[2][0], out)
                return "\n".join(out + ["_ <- dassert c %s ;;" % cond, self.block(rest, tail)])
            if e[0] == "if" and e[3] is None:
                # `if cond { return v; }` followed by the rest of the block
                then_stmts, then_tail = e[2][1], e[2][2]
                if then_tail is not None or len(then_stmts) != 1 or then_stmts[0][0] != "return":
                    raise ParseError("only `if c { return v; }` is supported as a statement")
                out = []
                cond = self.expr(e[1], out)
                return "\n".join(out + ["if %s then (%s) else (" % (cond, self.res_expr(then_stmts[0][1])),
                                        self.block(rest, tail), ")"])
            if e[0] == "cfgsel" and not rest and tail is None:
                return self.res_expr(e)
            raise ParseError("unsupported statement %r" % (e,))
        raise ParseError("unsupported statement kind %s" % k)


def indent(term, n=2):
    pad = " " * n
    return "\n".join(pad + line for line in term.split("\n"))


def gen_broadword(repo):
    bw = rp.strip_tests(open(os.path.join(repo, "src/broadword.rs")).read())
    it = rp.strip_tests(open(os.path.join(repo, "src/intrinsics.rs")).read())
    lines = ["(* GENERATED by tools/translate.py from src/broadword.rs and src/intrinsics.rs -- do not edit. *)",
             "From Sucds Require Import Base.Res Spec.WordSpec.", "Open Scope N_scope.", ""]
    consts, tables = {}, {}
    for name, ty, init in rp.top_level_consts(bw):
        m = re.match(r"\[\s*u8\s*;\s*(\d+)\s*\]$", ty)
        if m:
            body = init.strip()
            if not (body.startswith("[") and body.endswith("]")):
                raise ParseError("table %s is not an array literal" % name)
            vals = [int(x.replace("_", ""), 0) for x in body[1:-1].replace("\n", " ").split(",") if x.strip()]
            if len(vals) != int(m.group(1)):
                raise ParseError("table %s has %d entries, declared %s" % (name, len(vals), m.group(1)))
            if any(not (0 <= v < 256) for v in vals):
                raise ParseError("table %s has a non-u8 entry" % name)
            tables[name] = vals
        elif ty == "usize":
            consts[name] = eval_const_src(init, consts)
        else:
            raise ParseError("unsupported constant type %s for %s" % (ty, name))
    for name, v in consts.items():
        lines.append("Definition %s : N := %d." % (name, v))
    for name, vals in tables.items():
        rows = []
        for i in range(0, len(vals), 32):
            rows.append("  " + "; ".join(str(v) for v in vals[i:i + 32]))
        lines.append("Definition %s : list N := [\n%s\n]." % (name, ";\n".join(rows)))
    lines.append("")

    # functions: intrinsics first (callees before callers), then broadword in source order
    fn_names = {}
    ifns = rp.functions(it)
    bfns = rp.functions(bw)
    for name, *_ in ifns:
        fn_names["intrinsics_" + name] = "intrinsics_" + name
    for name, *_ in bfns:
        fn_names[name] = name
    items = [("intrinsics_" + n, p, r, b) for n, p, r, b, _ in ifns] + [(n, p, r, b) for n, p, r, b, _ in bfns]
    # order so that callees precede callers (source order is not dependency order in broadword.rs)
    bodies = {}
    for name, params, ret, body in items:
        tr = FnTranslator(consts, tables, fn_names)
        if ret == "usize":
            cty = "res N"
        elif ret == "Option<usize>":
            cty = "res (option N)"
        else:
            raise ParseError("unsupported return type %r of %s" % (ret, name))
        blk = rp.parse_fn_body(body)
        term = tr.block(blk[1], blk[2])
        ps = rp.param_names(params)
        deps = set(re.findall(r"<- ([A-Za-z_0-9]+) c ", term))
        bodies[name] = (deps, "Definition %s (c : cfg)%s : %s :=\n%s." % (
            name, "".join(" (%s : N)" % p for p in ps), cty, indent(term)))
    done, order = set(), []

    def visit(n, stack=()):
        if n in done:
            return
        if n in stack:
            raise ParseError("recursive function %s" % n)
        for d in sorted(bodies[n][0]):
            if d in bodies:
                visit(d, stack + (n,))
        done.add(n)
        order.append(n)
    for name, *_ in items:
        visit(name)
    for n in order:
        lines.append(bodies[n][1])
        lines.append("")
    return "\n".join(lines)


# ---------------------------------------------------------------------------------------------
# structural constants of the hand-modelled modules
# ---------------------------------------------------------------------------------------------

CONST_FILES = [
    ("bit_vector", "src/bit_vectors/bit_vector.rs"),
    ("rank9", "src/bit_vectors/rank9sel/inner.rs"),
    ("darray", "src/bit_vectors/darray/inner.rs"),
    ("elias_fano", "src/mii_sequences/elias_fano.rs"),
    ("dacs_byte", "src/int_vectors/dacs_byte.rs"),
]


def gen_consts(repo):
    lines = ["(* GENERATED by tools/translate.py: structural constants of the hand-modelled modules. *)",
             "From Coq Require Import NArith.", "Open Scope N_scope.", ""]
    for mod, path in CONST_FILES:
        src = rp.strip_tests(open(os.path.join(repo, path)).read())
        env = {}
        for name, ty, init in rp.top_level_consts(src):
            if ty != "usize":
                raise ParseError("unsupported constant type %s for %s in %s" % (ty, name, path))
            env[name] = eval_const_src(init, env)
            lines.append("Definition %s_%s : N := %d.  (* %s: %s *)" % (
                mod, name, env[name], path, " ".join(init.split())))
    return "\n".join(lines) + "\n"


# ---------------------------------------------------------------------------------------------
# Serializable impls -> format descriptions
# ---------------------------------------------------------------------------------------------

SER_FILES = [
    "src/bit_vectors/bit_vector.rs", "src/bit_vectors/rank9sel/inner.rs", "src/bit_vectors/rank9sel.rs",
    "src/bit_vectors/darray/inner.rs", "src/bit_vectors/darray.rs", "src/mii_sequences/elias_fano.rs",
    "src/bit_vectors/sarray.rs", "src/int_vectors/compact_vector.rs", "src/int_vectors/dacs_byte.rs",
    "src/int_vectors/dacs_opt.rs", "src/int_vectors/prefix_summed_elias_fano.rs",
    "src/char_sequences/wavelet_matrix.rs",
]

PRIMS = {"usize": "TU64", "isize": "TI64", "u8": "TU8", "u16": "TU16", "bool": "TBool"}


def ty_to_coq(t, generic=None):
    t = t.strip()
    if t in PRIMS:
        return PRIMS[t]
    m = re.match(r"Vec\s*<(.*)>$", t, re.S)
    if m:
        return "(TVec %s)" % ty_to_coq(m.group(1), generic)
    m = re.match(r"Option\s*<(.*)>$", t, re.S)
    if m:
        return "(TOpt %s)" % ty_to_coq(m.group(1), generic)
    if generic is not None and t == generic[0]:
        return generic[1]
    if re.match(r"[A-Z][A-Za-z0-9]*$", t):
        return "ty_" + t
    raise ParseError("unsupported field type %r" % t)


def parse_struct(src, name):
    m = re.search(r"pub struct %s\s*(<\s*([A-Z])\s*>)?\s*\{" % name, src)
    if not m:
        raise ParseError("struct %s not found" % name)
    b0 = m.end() - 1
    b1 = rp.find_matching(src, b0)
    body = re.sub(r"//[^\n]*", "", src[b0 + 1:b1])
    fields = []
    for part in rp.split_top(body, ","):
        part = part.strip()
        if not part:
            continue
        fm = re.match(r"(?:pub(?:\([a-z]+\))?\s+)?([a-z_][a-z0-9_]*)\s*:\s*(.+)$", part, re.S)
        if not fm:
            raise ParseError("unsupported field declaration %r in %s" % (part, name))
        fields.append((fm.group(1), " ".join(fm.group(2).split())))
    return fields, m.group(2)


def parse_serializable_impl(src, name):
    m = re.search(r"impl\s*(<\s*[A-Z]\s*>)?\s*Serializable\s+for\s+%s\s*(<\s*[A-Z]\s*>)?\s*(where[^{]*)?\{" % name, src)
    if not m:
        raise ParseError("impl Serializable for %s not found" % name)
    b0 = m.end() - 1
    b1 = rp.find_matching(src, b0)
    body = src[b0:b1 + 1]
    fns = {n: (p, r, b) for n, p, r, b, _ in rp.functions(body)}
    for need in ("serialize_into", "deserialize_from", "size_in_bytes"):
        if need not in fns:
            raise ParseError("%s: missing %s" % (name, need))
    if "size_of" in fns:
        raise ParseError("%s overrides size_of(); the generic Vec fast path would apply" % name)
    return fns


def norm(s):
    return " ".join(s.split())


def parse_ser_body(name, body, fields):
    """sequence of field names written; every call must be `mem (+)= self.f.serialize_into(&mut writer)?;`"""
    b = norm(body)[1:-1].strip()
    order = []
    # delegating form: self.f.serialize_into(writer)
    m = re.fullmatch(r"self\.([a-z_0-9]+)\.serialize_into\(writer\)", b)
    if m:
        return [m.group(1)], True
    stmts = [s.strip() for s in b.split(";") if s.strip()]
    if not stmts or stmts[-1] != "Ok(mem)":
        raise ParseError("%s::serialize_into does not end with Ok(mem)" % name)
    first = True
    for s in stmts[:-1]:
        if s == "let mut mem = 0":
            first = False
            continue
        m = re.fullmatch(r"(let mut mem =|mem \+=) self\.([a-z_0-9]+)\.serialize_into\(&mut writer\)\?", s)
        if not m:
            raise ParseError("%s::serialize_into: unsupported statement %r" % (name, s))
        if m.group(1).startswith("let") and not first:
            raise ParseError("%s::serialize_into: mem re-initialised" % name)
        first = False
        order.append(m.group(2))
    return order, False


def parse_deser_body(name, body):
    b = norm(body)[1:-1].strip()
    stmts = [s.strip() for s in b.split(";") if s.strip()]
    reads = []
    for s in stmts[:-1]:
        m = re.fullmatch(r"let ([a-z_0-9]+) = ([A-Za-z0-9_:<> ]+?)::deserialize_from\((&mut reader|reader)\)\?", s)
        if not m:
            raise ParseError("%s::deserialize_from: unsupported statement %r" % (name, s))
        ty = m.group(2).replace("::<", "<").replace(" ", "")
        reads.append((m.group(1), ty))
    last = stmts[-1]
    m = re.fullmatch(r"Ok\(Self \{ ([a-z_0-9, ]+?),? \}\)", last)
    if not m:
        raise ParseError("%s::deserialize_from: unsupported constructor %r" % (name, last))
    ctor = [x.strip() for x in m.group(1).split(",") if x.strip()]
    return reads, ctor


def parse_size_body(name, body, fields):
    """additive terms -> list of ("field", f) | ("prim", T, k)"""
    b = norm(body)[1:-1].strip()
    terms = []
    for t in rp.split_top(b, "+"):
        t = t.strip()
        m = re.fullmatch(r"self\.([a-z_0-9]+)\.size_in_bytes\(\)", t)
        if m:
            terms.append(("field", m.group(1), 1))
            continue
        m = re.fullmatch(r"(usize|bool|u8|u16|isize)::size_of\(\)\.unwrap\(\)(?: \* (\d+))?", t)
        if m:
            terms.append(("prim", m.group(1), int(m.group(2) or 1)))
            continue
        raise ParseError("%s::size_in_bytes: unsupported term %r" % (name, t))
    return terms


STRUCTS = ["BitVector", "Rank9SelIndex", "Rank9Sel", "DArrayIndex", "DArray", "EliasFano", "SArray",
           "CompactVector", "DacsByte", "DacsOpt", "PrefixSummedEliasFano", "WaveletMatrix"]


def gen_serial(repo):
    srcs = {}
    for p in SER_FILES:
        srcs[p] = rp.strip_tests(open(os.path.join(repo, p)).read())
    where = {}
    for s in STRUCTS:
        for p, src in srcs.items():
            if re.search(r"pub struct %s\b" % s, src):
                where[s] = p
        if s not in where:
            raise ParseError("struct %s not found" % s)
    lines = ["(* GENERATED by tools/translate.py from every `impl Serializable` -- do not edit. *)",
             "From Sucds Require Import Base.Res Spec.FormatSpec.", "From Coq Require Import String.",
             "Open Scope string_scope.", ""]
    descs = []
    for s in STRUCTS:
        src = srcs[where[s]]
        fields, generic = parse_struct(src, s)
        fns = parse_serializable_impl(src, s)
        order, delegating = parse_ser_body(s, fns["serialize_into"][2], fields)
        reads, ctor = parse_deser_body(s, fns["deserialize_from"][2])
        terms = parse_size_body(s, fns["size_in_bytes"][2], fields)
        # io discipline: only `?`-propagated calls, no unwrap/index/panic in serialization paths
        for fn in ("serialize_into", "deserialize_from"):
            body = fns[fn][2]
            for bad in (".unwrap()", ".expect(", "panic!", "[", "unsafe"):
                if bad in body:
                    raise ParseError("%s::%s contains %s" % (s, fn, bad))
        insts = [(s, None)]
        if generic:
            insts = [("%s_%s" % (s, b), (generic, "ty_" + b)) for b in ("Rank9Sel", "DArray", "BitVector")]
        for iname, g in insts:
            ftys = [(f, ty_to_coq(t, g)) for f, t in fields]
            rtys = [(f, ty_to_coq(t, g)) for f, t in reads]
            lines.append("Definition ty_%s : ty := TStruct [%s]." % (iname, "; ".join(t for _, t in ftys)))
            sz = []
            for t in terms:
                if t[0] == "field":
                    sz.append('SzField "%s"' % t[1])
                else:
                    sz.append("SzPrim %s %d" % (PRIMS[t[1]], t[2]))
            lines.append("Definition impl_%s : impl_desc := {|\n  d_name := \"%s\";\n  d_fields := [%s];\n"
                         "  d_ser := [%s];\n  d_deser := [%s];\n  d_ctor := [%s];\n  d_size := [%s] |}." % (
                             iname, iname,
                             "; ".join('("%s", %s)' % ft for ft in ftys),
                             "; ".join('"%s"' % f for f in order),
                             "; ".join('("%s", %s)' % ft for ft in rtys),
                             "; ".join('"%s"' % f for f in ctor),
                             "; ".join(sz)))
            lines.append("")
            descs.append("impl_" + iname)
    lines.append("Definition all_impls : list impl_desc := [%s]." % "; ".join(descs))

    # the generic impls (Option, Vec, primitives): facts recorded as booleans checked by the theorems
    ser = norm(rp.strip_tests(open(os.path.join(repo, "src/serial.rs")).read()))
    prim = norm(rp.strip_tests(open(os.path.join(repo, "src/serial/primitive.rs")).read()))
    facts = {
        "prim_write_all_le": "writer.write_all(&self.to_le_bytes())?; Ok(std::mem::size_of::<Self>())" in prim,
        "prim_read_exact_le": "let mut buf = [0; std::mem::size_of::<Self>()]; reader.read_exact(&mut buf)?; "
                              "Ok(Self::from_le_bytes(buf))" in prim,
        "prim_size_of": "fn size_of() -> Option<usize> { Some(std::mem::size_of::<Self>()) }" in prim,
        "bool_as_u8": "(*self as u8).serialize_into(writer)" in prim
                      and "u8::deserialize_from(reader).map(|x| x != 0)" in prim,
        "option_tag_first": "if let Some(x) = self { mem += true.serialize_into(&mut writer)?; "
                            "mem += x.serialize_into(&mut writer)?; } else { mem += false.serialize_into(&mut writer)?; }" in ser
                            and "let x = if bool::deserialize_from(&mut reader)? { Some(S::deserialize_from(&mut reader)?) } "
                                "else { None };" in ser,
        "vec_len_first": "let mut mem = self.len().serialize_into(&mut writer)?; for x in self { "
                         "mem += x.serialize_into(&mut writer)?; }" in ser
                         and "let len = usize::deserialize_from(&mut reader)?; let mut vec = Self::with_capacity(len); "
                             "for _ in 0..len { vec.push(S::deserialize_from(&mut reader)?); }" in ser,
        "vec_size_fast_path": "S::size_of().map_or_else( || usize::size_of().unwrap() + self.iter().fold(0, |acc, x| acc + "
                              "x.size_in_bytes()), |m| usize::size_of().unwrap() + m * self.len(), )" in ser,
        "option_size": "self.as_ref().map_or(0, |x| x.size_in_bytes()) + bool::size_of().unwrap()" in ser,
    }
    prims_declared = re.findall(r"common_def!\((\w+)\);", prim)
    lines.append("")
    for k, v in facts.items():
        lines.append("Definition fact_%s : bool := %s." % (k, "true" if v else "false"))
    lines.append("Definition generic_facts : list bool := [%s]." % "; ".join("fact_" + k for k in facts))
    lines.append("(* primitives with a common_def!: %s *)" % ", ".join(prims_declared))
    for need in ("u8", "u16", "usize", "isize"):
        if need not in prims_declared:
            raise ParseError("primitive %s lost its Serializable impl" % need)
    return "\n".join(lines) + "\n"


# ---------------------------------------------------------------------------------------------
# fingerprints
# ---------------------------------------------------------------------------------------------

def gen_fingerprints(repo):
    fp = {}
    for root, _, files in os.walk(os.path.join(repo, "src")):
        for f in sorted(files):
            if not f.endswith(".rs"):
                continue
            path = os.path.join(root, f)
            rel = os.path.relpath(path, repo)
            src = rp.strip_tests(open(path).read())
            try:
                for name, params, ret, body, off in rp.functions(src):
                    key = "%s::%s@%d" % (rel, name, src[:off].count("\n"))
                    h = hashlib.sha256(rp.normalized_tokens(params + " -> " + ret + " " + body).encode()).hexdigest()[:16]
                    fp["%s::%s#%d" % (rel, name, sum(1 for k in fp if k.startswith("%s::%s#" % (rel, name))))] = h
            except ParseError as ex:
                fp[rel] = "unparsed: %s" % ex
    return json.dumps(fp, indent=1, sort_keys=True) + "\n"


def write_if_changed(path, content):
    old = None
    if os.path.exists(path):
        old = open(path).read()
    if old != content:
        os.makedirs(os.path.dirname(path), exist_ok=True)
        with open(path, "w") as f:
            f.write(content)
        return True
    return False


def main():
    repo = os.environ.get("VERIF_REPO", "/repo")
    here = os.path.dirname(os.path.dirname(os.path.abspath(__file__)))
    outdir = os.path.join(os.environ.get("VERIF_COQ_DIR") or os.path.join(here, "coq"), "gen")
    which = sys.argv[1:] or ["broadword", "consts", "serial", "fingerprints"]
    status = 0
    gens = {"broadword": ("BroadwordGen.v", gen_broadword), "consts": ("ConstsGen.v", gen_consts),
            "serial": ("SerialGen.v", gen_serial), "fingerprints": ("fingerprints.json", gen_fingerprints)}
    for w in which:
        fname, fn = gens[w]
        try:
            content = fn(repo)
        except (ParseError, OSError, ValueError, IndexError, KeyError) as ex:
            print("TRANSLATE-ERROR %s: %s" % (w, ex))
            status = 2
            continue
        changed = write_if_changed(os.path.join(outdir, fname), content)
        print("translate %s: %s" % (fname, "rewritten" if changed else "unchanged"))
    sys.exit(status)


if __name__ == "__main__":
    main()
