#!/usr/bin/env python3
"""writes MANIFEST.json from the table below (kept here so that the file is always schema-valid)"""
import json, os
ROOT = os.path.dirname(os.path.dirname(os.path.abspath(__file__)))

# per property: (category, technique, text, note)
CORR = ("translation_validation",
        "Coq model + spec (extracted) vs implementation, differential on generated cases; theorems in progress")
P = {}
def prop(pid, cat, technique, text, note, design):
    P[pid] = dict(cat=cat, technique=technique, text=text, note=note, design=design)

COMMON_NOTE = ("Trusted: Coq 8.16.1 kernel and vm_compute (all pinned theorems closed under the global context); tools/translate.py + rustparse.py "
               "(Rust subset -> Gallina, incl. the modelled Rust integer/panic semantics of Base/Res.v) which regenerates every modelled function on "
               "each run; the statements and Spec/*.v; for the search only: extraction (ExtrOcamlBasic only, no Extract Constant), OCaml driver, Rust "
               "harness. The hand-written models are proved equal to the regenerated code and compared with the implementation. Hypotheses: stored "
               "bits < 2^56 (derived bounds in DESIGN 3.3) and the documented API preconditions.")

for pid, what in [
    ("C01", "Rank9Sel build + access/rank/select/counts vs the plain bit sequence, 4 hint configurations"),
    ("C02", "DArray build + select1/select0/rank/access vs the plain bit sequence, 4 index configurations"),
    ("C03", "SArray access/select1/rank/predecessor/successor vs the plain bit sequence incl. the all-zero vector"),
    ("C04", "EliasFano select/delta/rank/predecessor/successor/iter/binsearch vs the sorted multiset"),
    ("C05", "WaveletMatrix access/rank/rank_range/select vs the integer sequence, 3 backings"),
    ("C06", "WaveletMatrix quantile/intersect vs sort/set semantics"),
    ("C07", "BitVector histories of the 7 mutators and all reads vs list bool; canonicity"),
    ("C08", "serialization round trip, byte accounting, reader position for every structure"),
    ("C09", "CompactVector histories vs list of integers; rejections; canonicity"),
    ("C10", "DacsOpt lossless, level limit, widths admissible, no assert reachable"),
    ("C11", "DacsByte lossless, level count"),
    ("C12", "PrefixSummedEliasFano lossless, exact sum"),
    ("C13", "every truncation offset / write budget / read-write schedule yields Err or the unscheduled result"),
    ("C14", "popcount/lsb/msb/select_in_word (generated from broadword.rs) vs their mathematical definitions"),
    ("C15", "transcripts of 4 builds (dev/release x default/intrinsics) identical and panic-free; model under each cfg agrees"),
    ("C16", "EliasFanoBuilder push/extend acceptance rule, rejected pushes without effect, build = accepted list"),
    ("C17", "iterators: next sequences, exhaustion, size_hint bracketing, unary skip1/skip0 sequences"),
    ("C18", "DacsOpt widths minimise the stored-bit cost over all compositions"),
    ("C19", "size_in_bytes within the documented bounds with explicit constants"),
]:
    prop(pid, "translation_validation",
         "Coq model+spec vs implementation (differential, extracted to OCaml); Coq theorems where listed in evidence",
         "Executable Coq model of the anchored code and an executable Coq spec are run against the real implementation on the same "
         "generated cases (outputs and serialized internal state): " + what + ". Theorems about the model proved so far are re-checked on "
         "every run and listed in the evidence (obligations/discharged); until the property's theorems are complete the claim is "
         "correspondence + spec oracle, not proof.",
         COMMON_NOTE, "DESIGN.md section 7 " + pid)

checks = []
for pid in sorted(P):
    p = P[pid]
    checks.append({
        "property_id": pid,
        "quick_cmd": "./check %s --tier quick" % pid,
        "thorough_cmd": "./check %s --tier thorough" % pid,
        "evidence_file": "evidence/%s.json" % pid,
        "replay_cmd_template": "./check %s --replay {path}" % pid,
        "engine": "coq+correspondence",
        "level_claimed": {"category": p["cat"], "text": p["text"], "design_ref": p["design"]},
        "level_note": p["note"],
        "technique": p["technique"],
    })
# per-property overrides live in tools/manifest_overrides.json (category/technique/text), written as proofs land
ov_path = os.path.join(ROOT, "tools", "manifest_overrides.json")
if os.path.exists(ov_path):
    ov = json.load(open(ov_path))
    for c in checks:
        o = ov.get(c["property_id"])
        if o:
            if "category" in o: c["level_claimed"]["category"] = o["category"]
            if "text" in o: c["level_claimed"]["text"] = o["text"]
            if "technique" in o: c["technique"] = o["technique"]
            if "note" in o: c["level_note"] = o["note"]

manifest = {
    "version": 1,
    "setup_cmd": "./check setup",
    "hooks": {
        "guard": "sucds_verif",
        "enable": "none needed: internal state is observed through Serializable::serialize_into; the reserved guard is RUSTFLAGS=\"--cfg sucds_verif\"",
        "baseline_off_cmd": "cd /repo && cargo test --workspace --no-fail-fast --offline",
        "source_commits": [],
        "add_only": True,
    },
    "engines": [{
        "name": "coq+correspondence", "path": "check",
        "serves_properties": sorted(P),
        "kind_free_text": "Coq 8.16 development (Base/Spec/Model/Proofs/Props), translator regenerating coq/gen from /repo, extracted model+spec "
                          "driver (OCaml) replaying transcripts of a Rust harness built from /repo in up to 4 configurations",
    }],
    "checks": checks,
    "not_applicable": [{
        "property_id": "C20",
        "reason": "absence of unsafe operations and Send/Sync are judgements of the Rust type checker about program text, not values a Gallina "
                  "model computes; no executable model expresses them (DESIGN.md section 7, C20)",
    }],
    "notes": "Fixes of genuine defects found by these checks are the `fix:` commits in /repo, listed in known_findings.txt as fixed: lines.",
}
json.dump(manifest, open(os.path.join(ROOT, "MANIFEST.json"), "w"), indent=1)
print("MANIFEST.json written:", len(checks), "checks")
