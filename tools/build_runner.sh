#!/bin/sh
# build the extracted model + driver into .build/runner (only when inputs changed)
set -e
ROOT="$(cd "$(dirname "$0")/.." && pwd)"
OUT="$ROOT/.build/runner"
mkdir -p "$OUT"
if [ ! -f "$OUT/driver" ] || [ "$ROOT/coq/model.ml" -nt "$OUT/driver" ] || [ "$ROOT/runner/driver.ml" -nt "$OUT/driver" ]; then
  cp "$ROOT/coq/model.ml" "$ROOT/coq/model.mli" "$ROOT/runner/driver.ml" "$OUT/"
  (cd "$OUT" && ocamlfind ocamlopt -package unix -linkpkg -w -a -o driver.tmp model.mli model.ml driver.ml && mv driver.tmp driver)
fi
