#!/bin/sh
# build the extracted model + driver (only when inputs changed)
# usage: build_runner.sh [coq-dir] [out-dir]
set -e
ROOT="$(cd "$(dirname "$0")/.." && pwd)"
COQDIR="${1:-$ROOT/coq}"
OUT="${2:-$ROOT/.build/runner}"
mkdir -p "$OUT"
if [ ! -f "$OUT/driver" ] || [ "$COQDIR/model.ml" -nt "$OUT/driver" ] || [ "$ROOT/runner/driver.ml" -nt "$OUT/driver" ]; then
  cp "$COQDIR/model.ml" "$COQDIR/model.mli" "$ROOT/runner/driver.ml" "$OUT/"
  (cd "$OUT" && ocamlfind ocamlopt -package unix -linkpkg -w -a -o driver.tmp model.mli model.ml driver.ml && mv driver.tmp driver)
fi
