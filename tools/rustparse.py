"""Tokenizer and Pratt parser for the Rust subset used by src/broadword.rs and src/intrinsics.rs and by the
loop-free methods of the core modules (gen/MethodsGen.v) and the functions with loops (gen/LoopsGen.v: `for`,
`while`, `while let Some(..)`, `loop`, `break`, `if let Some(..)`, slices, `vec![e; n]`), plus item-level helpers
(consts, fns, structs, impl blocks, signatures, where clauses) used for the other generated files.

Anything outside the subset raises ParseError: the translator then reports that the tie to the
source cannot be established (DESIGN.md section 5.1)."""
import re


class ParseError(Exception):
    pass


TOKEN_RE = re.compile(r"""
    (?P<ws>\s+)
  | (?P<lcomment>//[^\n]*)
  | (?P<bcomment>/\*.*?\*/)
  | (?P<num>0x[0-9a-fA-F_]+|0b[01_]+|[0-9][0-9_]*)(?P<suffix>usize|u8|u16|u32|u64|isize|i64|i32)?
  | (?P<ident>[A-Za-z_][A-Za-z0-9_]*)
  | (?P<str>"(?:[^"\\]|\\.)*")
  | (?P<op><<=|>>=|\.\.=|&&|\|\||==|!=|<=|>=|<<|>>|\+=|-=|\*=|/=|%=|&=|\|=|\^=|->|=>|::|\.\.|[-+*/%&|^!<>=.,;:(){}\[\]#?@'$])
""", re.X | re.S)


def tokenize(src):
    toks = []
    pos = 0
    while pos < len(src):
        m = TOKEN_RE.match(src, pos)
        if not m:
            raise ParseError("cannot tokenize at %r" % src[pos:pos + 30])
        pos = m.end()
        if m.lastgroup in ("ws", "lcomment", "bcomment"):
            continue
        if m.group("num") is not None:
            txt = m.group("num").replace("_", "")
            toks.append(("num", int(txt, 0)))
        elif m.group("ident") is not None:
            toks.append(("id", m.group("ident")))
        elif m.group("str") is not None:
            toks.append(("str", m.group("str")))
        else:
            toks.append(("op", m.group("op")))
    return toks


def normalized_tokens(src):
    """token stream with comments/whitespace removed; used for fingerprints"""
    return " ".join(str(v) for _, v in tokenize(src))


# ---------------------------------------------------------------------------------------------
# AST: tuples.
#  ("num", n) ("var", name) ("path", [a,b,..]) ("un", op, e) ("bin", op, a, b) ("cast", e, ty)
#  ("call", fn_expr, [args]) ("mcall", recv, name, [args]) ("index", a, i)
#  ("if", cond, then_block, else_block_or_None) ("block", stmts, tail_or_None)
#  ("cfgsel", intr_block, nointr_block)   -- pair of #[cfg(feature="intrinsics")] / not(...) blocks
#  ("macro", name, [args])
# method-level subset (tools/translate.py, MethodsGen): ("field", e, name) ("tuple", [es]) ("str", s)
#  ("ref", e) ("un", "*", e) ("try", e) ("closure", [params], body) ("structlit", name, [(field, e)])
#  ("bin", "..=" | "..", a, b)
# statements: ("let", name, mutable, e) ("assign", name, op_or_None, e) ("expr", e) ("return", e)
#  ("lettuple", [names], e)   ("assignp", place_expr, op_or_None, e)   -- place: field / index / deref
# loops (tools/translate.py, LoopsGen): ("for", pat, iter, body) with pat = name | None (`_`); ("while", cond, body)
#  ("whilelet", name, e, body) for `while let Some(name) = e`; ("loop", body); statement ("break",)
#  ("iflet", name, e, then_block, else_block_or_None) for `if let Some(name) = e`; ("vecrep", elem, count) for
#  `vec![elem; count]`; ("index", a, ("rangeto", k) | ("rangefrom", j) | ("range", j, k)) for slices;
#  ("for", (n1, n2, ..), iter, body) for a tuple pattern; statement ("continue",);
#  ("tpath", [a,b,..], [types]) for a path ending in a turbofish (`std::mem::size_of::<Self>`); ("arrayrep", elem, count)
#  for `[elem; count]` (both only in the generic Serializable impls, tools/translate.py SerialImplGen);
#  ("veclit", [es]) for `vec![a, b, ..]` / `vec![]`; ("refmut", e) for `&mut e` (only as an argument for a `&mut` parameter
#  or as the scrutinee of `if let Some(x) = &mut place`); statement ("panic",) for `panic!(..)` as a statement / in tail position
# ---------------------------------------------------------------------------------------------

BINPREC = {
    "*": 12, "/": 12, "%": 12,
    "+": 11, "-": 11,
    "<<": 10, ">>": 10,
    "&": 9, "^": 8, "|": 7,
    "==": 6, "!=": 6, "<": 6, ">": 6, "<=": 6, ">=": 6,
    "&&": 5, "||": 4,
    "..=": 3, "..": 3,
}
ASSIGN_OPS = {"=": None, "+=": "+", "-=": "-", "*=": "*", "|=": "|", "&=": "&", "^=": "^",
              "<<=": "<<", ">>=": ">>", "/=": "/", "%=": "%"}


class Parser:
    def __init__(self, toks):
        self.t = toks
        self.i = 0

    def peek(self, k=0):
        return self.t[self.i + k] if self.i + k < len(self.t) else ("eof", None)

    def next(self):
        tok = self.peek()
        self.i += 1
        return tok

    def at(self, kind, val=None):
        tok = self.peek()
        return tok[0] == kind and (val is None or tok[1] == val)

    def expect(self, kind, val=None):
        tok = self.next()
        if tok[0] != kind or (val is not None and tok[1] != val):
            raise ParseError("expected %s %r, got %r" % (kind, val, tok))
        return tok

    # -- attributes ------------------------------------------------------------------------
    def parse_attr(self):
        """#[...] -> normalised string"""
        self.expect("op", "#")
        if self.at("op", "!"):
            self.next()
        self.expect("op", "[")
        depth = 1
        parts = []
        while depth:
            tok = self.next()
            if tok[0] == "eof":
                raise ParseError("unterminated attribute")
            if tok == ("op", "["):
                depth += 1
            elif tok == ("op", "]"):
                depth -= 1
                if depth == 0:
                    break
            parts.append(str(tok[1]))
        return "".join(parts)

    # -- expressions -----------------------------------------------------------------------
    def parse_expr(self, minprec=0):
        lhs = self.parse_unary()
        while True:
            tok = self.peek()
            if tok[0] == "id" and tok[1] == "as":
                self.next()
                ty = self.parse_type()
                lhs = ("cast", lhs, ty)
                continue
            if tok[0] == "op" and tok[1] in BINPREC and BINPREC[tok[1]] > minprec:
                op = tok[1]
                self.next()
                rhs = self.parse_expr(BINPREC[op])
                lhs = ("bin", op, lhs, rhs)
                continue
            return lhs

    def parse_unary(self):
        tok = self.peek()
        if tok == ("op", "!") or tok == ("op", "-") or tok == ("op", "*"):
            self.next()
            return ("un", tok[1], self.parse_unary_postfix_cast())
        if tok == ("op", "&"):
            self.next()
            if self.at("id", "mut"):
                self.next()
                return ("refmut", self.parse_unary_postfix_cast())
            return ("ref", self.parse_unary_postfix_cast())
        return self.parse_postfix()

    def parse_unary_postfix_cast(self):
        # unary binds tighter than `as`
        return self.parse_unary()

    def parse_postfix(self):
        e = self.parse_primary()
        while True:
            if self.at("op", "("):
                args = self.parse_args()
                e = ("call", e, args)
            elif self.at("op", "["):
                self.next()
                if self.at("op", ".."):                      # v[..k]
                    self.next()
                    i = ("rangeto", self.parse_expr())
                else:
                    i = self.parse_expr(BINPREC[".."])       # v[i]  v[j..]  v[j..k]
                    if self.at("op", ".."):
                        self.next()
                        i = ("rangefrom", i) if self.at("op", "]") else ("range", i, self.parse_expr())
                self.expect("op", "]")
                e = ("index", e, i)
            elif self.at("op", ".") and self.peek(1)[0] == "id":
                self.next()
                name = self.next()[1]
                if self.at("op", "::") and self.peek(1) == ("op", "<"):    # turbofish: .sum::<usize>()
                    self.next()
                    self.skip_generic_args()
                if self.at("op", "("):
                    args = self.parse_args()
                    e = ("mcall", e, name, args)
                else:
                    e = ("field", e, name)
            elif self.at("op", "?"):
                self.next()
                e = ("try", e)
            else:
                return e

    def parse_args(self):
        self.expect("op", "(")
        args = []
        while not self.at("op", ")"):
            args.append(self.parse_expr())
            if self.at("op", ","):
                self.next()
        self.expect("op", ")")
        return args

    def parse_primary(self):
        tok = self.peek()
        if tok[0] == "num":
            self.next()
            return ("num", tok[1])
        if tok == ("op", "("):
            self.next()
            if self.at("op", ")"):
                self.next()
                return ("tuple", [])
            e = self.parse_expr()
            if self.at("op", ","):
                items = [e]
                while self.at("op", ","):
                    self.next()
                    if self.at("op", ")"):
                        break
                    items.append(self.parse_expr())
                self.expect("op", ")")
                return ("tuple", items)
            self.expect("op", ")")
            return e
        if tok == ("op", "{"):
            return self.parse_block()
        if tok == ("op", "["):                               # [elem; count] (array repeat expression)
            self.next()
            elem = self.parse_expr()
            self.expect("op", ";")
            count = self.parse_expr()
            self.expect("op", "]")
            return ("arrayrep", elem, count)
        if tok == ("id", "if"):
            return self.parse_if()
        if tok == ("id", "loop") and self.peek(1) == ("op", "{"):
            self.next()
            return ("loop", self.parse_block())
        if tok == ("id", "while"):
            self.next()
            if self.at("id", "let"):
                name = self.parse_some_pattern()
                e = self.parse_expr()
                return ("whilelet", name, e, self.parse_block())
            cond = self.parse_expr()
            return ("while", cond, self.parse_block())
        if tok == ("id", "for"):
            self.next()
            if self.at("op", "&"):
                self.next()
            if self.at("op", "("):                           # for (j, &w) in ..: a tuple of names
                self.next()
                names = []
                while not self.at("op", ")"):
                    if self.at("op", "&"):
                        self.next()
                    names.append(self.expect("id")[1])
                    if self.at("op", ","):
                        self.next()
                self.expect("op", ")")
                if len(names) < 2 or "_" in names or len(set(names)) != len(names):
                    raise ParseError("unsupported tuple pattern in `for`")
                pat = tuple(names)
            else:
                pat = self.expect("id")[1]
            self.expect("id", "in")
            it = self.parse_expr()
            return ("for", None if pat == "_" else pat, it, self.parse_block())
        if tok == ("id", "unsafe") and self.peek(1) == ("op", "{"):
            self.next()
            return self.parse_block()
        if tok[0] == "str":
            self.next()
            return ("str", tok[1])
        if tok == ("op", "|") or tok == ("op", "||"):
            return self.parse_closure()
        if tok[0] == "id":
            self.next()
            path = [tok[1]]
            while self.at("op", "::"):
                self.next()
                if self.at("op", "<"):                       # turbofish at the end of a path: size_of::<T>
                    self.next()
                    targs = [self.parse_type()]
                    while self.at("op", ","):
                        self.next()
                        targs.append(self.parse_type())
                    self.expect("op", ">")
                    return ("tpath", path, targs)
                path.append(self.expect("id")[1])
            if self.at("op", "!") and self.peek(1) == ("op", "("):
                self.next()
                args = self.parse_args()
                return ("macro", "::".join(path), args)
            if path == ["vec"] and self.at("op", "!") and self.peek(1) == ("op", "["):
                self.next()
                self.next()
                if self.at("op", "]"):                       # vec![]
                    self.next()
                    return ("veclit", [])
                elem = self.parse_expr()
                if self.at("op", ";"):                       # vec![elem; count]
                    self.next()
                    count = self.parse_expr()
                    self.expect("op", "]")
                    return ("vecrep", elem, count)
                elems = [elem]                               # vec![a, b, ..]
                while self.at("op", ","):
                    self.next()
                    if self.at("op", "]"):
                        break
                    elems.append(self.parse_expr())
                self.expect("op", "]")
                return ("veclit", elems)
            if len(path) == 1 and self.at("op", "{") and self.looks_like_struct_literal(path[0]):
                return self.parse_struct_literal(path[0])
            if len(path) == 1:
                return ("var", path[0])
            return ("path", path)
        raise ParseError("unexpected token %r in expression" % (tok,))

    def parse_closure(self):
        """|x| e   |&x| e   || e   (parameters are plain identifiers, optionally behind `&`)"""
        params = []
        if self.at("op", "||"):
            self.next()
        else:
            self.expect("op", "|")
            while not self.at("op", "|"):
                if self.at("op", "&"):
                    self.next()
                params.append(self.expect("id")[1])
                if self.at("op", ","):
                    self.next()
            self.expect("op", "|")
        return ("closure", params, self.parse_expr())

    def looks_like_struct_literal(self, name):
        """`Name {` starts a struct literal only for `Self` / CamelCase names (constants are ALL_CAPS, and Rust
        itself forbids struct literals in `if` conditions) followed by `}` or `field:` / `field,` / `field }`"""
        if not (name == "Self" or re.match(r"[A-Z][A-Za-z0-9]*[a-z]", name)):
            return False
        t1, t2 = self.peek(1), self.peek(2)
        if t1 == ("op", "}"):
            return True
        return t1[0] == "id" and t2 in (("op", ":"), ("op", ","), ("op", "}"))

    def parse_struct_literal(self, name):
        self.expect("op", "{")
        fields = []
        while not self.at("op", "}"):
            f = self.expect("id")[1]
            if self.at("op", ":"):
                self.next()
                e = self.parse_expr()
            else:
                e = ("var", f)
            fields.append((f, e))
            if self.at("op", ","):
                self.next()
            elif not self.at("op", "}"):
                raise ParseError("malformed struct literal %s" % name)
        self.expect("op", "}")
        return ("structlit", name, fields)

    def parse_some_pattern(self):
        """`let Some(name) =` (the only refutable pattern supported); returns name"""
        self.expect("id", "let")
        self.expect("id", "Some")
        self.expect("op", "(")
        if self.at("op", "&"):
            self.next()
        name = self.expect("id")[1]
        self.expect("op", ")")
        self.expect("op", "=")
        return name

    def parse_if(self):
        self.expect("id", "if")
        if self.at("id", "let"):
            name = self.parse_some_pattern()
            scrut = self.parse_expr()
            then = self.parse_block()
            els = None
            if self.at("id", "else"):
                self.next()
                els = ("block", [], self.parse_if()) if self.at("id", "if") else self.parse_block()
            return ("iflet", name, scrut, then, els)
        cond = self.parse_expr()
        then = self.parse_block()
        els = None
        if self.at("id", "else"):
            self.next()
            if self.at("id", "if"):
                els = ("block", [], self.parse_if())
            else:
                els = self.parse_block()
        return ("if", cond, then, els)

    def parse_type(self):
        parts = [self.expect("id")[1]]
        while self.at("op", "::"):
            self.next()
            parts.append(self.expect("id")[1])
        if self.at("op", "<"):                               # Vec<_>, Vec<Vec<u8>>: the arguments are dropped
            self.skip_generic_args()
        return "::".join(parts)

    def skip_generic_args(self):
        """`<` .. matching `>` (`>>` closes two levels)"""
        self.expect("op", "<")
        depth = 1
        while depth > 0:
            tok = self.next()
            if tok[0] == "eof":
                raise ParseError("unterminated generic arguments")
            if tok == ("op", "<"):
                depth += 1
            elif tok == ("op", ">"):
                depth -= 1
            elif tok == ("op", ">>"):
                depth -= 2
            elif tok[0] == "op" and tok[1] in ("(", ")", "{", "}", ";", "="):
                raise ParseError("unsupported generic arguments")
        if depth < 0:
            raise ParseError("unbalanced generic arguments")

    def at_blocklike(self):
        return self.at("id", "if") or (self.at("id", "unsafe") and self.peek(1) == ("op", "{")) \
            or self.at("id", "for") or self.at("id", "while") or (self.at("id", "loop") and self.peek(1) == ("op", "{"))

    # -- blocks / statements -----------------------------------------------------------------
    def parse_block(self):
        self.expect("op", "{")
        stmts = []
        tail = None
        pending_cfg = None   # ("intr"|"nointr", block)
        while not self.at("op", "}"):
            if self.at("op", "#"):
                attr = self.parse_attr()
                if attr == 'cfg(feature="intrinsics")':
                    which = "intr"
                elif attr == 'cfg(not(feature="intrinsics"))':
                    which = "nointr"
                else:
                    raise ParseError("unsupported attribute inside a body: %s" % attr)
                blk = self.parse_block()
                if pending_cfg is None:
                    pending_cfg = (which, blk)
                    continue
                if pending_cfg[0] == which:
                    raise ParseError("two cfg blocks for the same configuration")
                pair = dict([pending_cfg, (which, blk)])
                pending_cfg = None
                e = ("cfgsel", pair["intr"], pair["nointr"])
                if self.at("op", "}"):
                    tail = e
                else:
                    if self.at("op", ";"):
                        self.next()
                    stmts.append(("expr", e))
                continue
            if pending_cfg is not None:
                raise ParseError("unpaired cfg block")
            if self.at("id", "let"):
                self.next()
                mutable = False
                if self.at("id", "mut"):
                    self.next()
                    mutable = True
                if self.at("op", "("):
                    if mutable:
                        raise ParseError("`let mut (..)` is not a pattern")
                    self.next()
                    names = []
                    while not self.at("op", ")"):
                        if self.at("id", "mut"):
                            self.next()
                        names.append(self.expect("id")[1])
                        if self.at("op", ","):
                            self.next()
                    self.expect("op", ")")
                    self.expect("op", "=")
                    e = self.parse_expr()
                    self.expect("op", ";")
                    stmts.append(("lettuple", names, e))
                    continue
                if self.at("op", "&") and not mutable:       # `let &x = e;` (e is a reference to a Copy value)
                    self.next()
                name = self.expect("id")[1]
                if self.at("op", ":"):
                    self.next()
                    self.parse_type()
                self.expect("op", "=")
                e = self.parse_expr()
                self.expect("op", ";")
                stmts.append(("let", name, mutable, e))
                continue
            if self.at("id", "return"):
                self.next()
                e = self.parse_expr()
                if self.at("op", ";"):
                    self.next()
                stmts.append(("return", e))
                continue
            if self.at("id", "break"):
                self.next()
                if not self.at("op", ";") and not self.at("op", "}"):
                    raise ParseError("`break` with a label or a value")
                if self.at("op", ";"):
                    self.next()
                stmts.append(("break",))
                continue
            if self.at("id", "continue"):
                self.next()
                if not self.at("op", ";") and not self.at("op", "}"):
                    raise ParseError("`continue` with a label")
                if self.at("op", ";"):
                    self.next()
                stmts.append(("continue",))
                continue
            if self.at_blocklike():
                # a block-like expression at statement start is a complete statement (as in rustc)
                e = self.parse_primary()
                if self.at("op", "}"):
                    tail = e
                else:
                    if self.at("op", ";"):
                        self.next()
                    stmts.append(("expr", e))
                continue
            e = self.parse_expr()
            if e[0] == "macro" and e[1] == "panic" and (self.at("op", ";") or self.at("op", "}")):
                if self.at("op", ";"):                       # panic!(..) as a statement or in tail position: a jump
                    self.next()
                stmts.append(("panic",))
                continue
            tok = self.peek()
            if tok[0] == "op" and tok[1] in ASSIGN_OPS:
                self.next()
                rhs = self.parse_expr()
                self.expect("op", ";")
                if e[0] == "var":
                    stmts.append(("assign", e[1], ASSIGN_OPS[tok[1]], rhs))
                elif e[0] in ("field", "index") or (e[0] == "un" and e[1] == "*"):
                    stmts.append(("assignp", e, ASSIGN_OPS[tok[1]], rhs))
                else:
                    raise ParseError("assignment to an unsupported place")
                continue
            if self.at("op", ";"):
                self.next()
                stmts.append(("expr", e))
                continue
            if self.at("op", "}"):
                tail = e
                continue
            if e[0] in ("if", "block", "cfgsel"):
                stmts.append(("expr", e))
                continue
            raise ParseError("unexpected token %r after expression" % (tok,))
        if pending_cfg is not None:
            raise ParseError("unpaired cfg block at end of block")
        self.expect("op", "}")
        return ("block", stmts, tail)


# ---------------------------------------------------------------------------------------------
# item level
# ---------------------------------------------------------------------------------------------

def strip_tests(src):
    """drop the #[cfg(test)] module (always the last item of a file in this crate)"""
    i = src.find("#[cfg(test)]")
    return src if i < 0 else src[:i]


def find_matching(src, start, open_ch="{", close_ch="}"):
    """src[start] == open_ch; index of the matching close (comments/strings skipped)"""
    depth = 0
    i = start
    n = len(src)
    while i < n:
        ch = src[i]
        if src.startswith("//", i):
            j = src.find("\n", i)
            i = n if j < 0 else j
            continue
        if src.startswith("/*", i):
            i = src.find("*/", i) + 2
            continue
        if ch == '"':
            i += 1
            while src[i] != '"':
                i += 2 if src[i] == "\\" else 1
        elif ch == "'" and i + 2 < n and (src[i + 2] == "'" or (src[i + 1] == "\\" and src[i + 3] == "'")):
            i += 3 if src[i + 2] == "'" else 4
            continue
        elif ch == open_ch:
            depth += 1
        elif ch == close_ch:
            depth -= 1
            if depth == 0:
                return i
        i += 1
    raise ParseError("unbalanced %s" % open_ch)


CONST_RE = re.compile(r"(?:pub(?:\([a-z]+\))?\s+)?const\s+([A-Z][A-Z0-9_]*)\s*:\s*(\[[^\]]*\]|[^=;\[]+?)\s*=\s*", re.S)
FN_RE = re.compile(r"(?:pub(?:\([a-z]+\))?\s+)?(?:const\s+)?(?:unsafe\s+)?fn\s+([a-z_][a-z0-9_]*)\s*(?:<[^>]*>)?\s*\(", re.S)


def top_level_consts(src):
    """[(name, type, initializer source)] for `const NAME: T = init;` items"""
    out = []
    for m in CONST_RE.finditer(src):
        j = m.end()
        # initializer ends at the first `;` at bracket depth 0
        depth = 0
        k = j
        while True:
            ch = src[k]
            if ch in "([{":
                depth += 1
            elif ch in ")]}":
                depth -= 1
            elif ch == ";" and depth == 0:
                break
            k += 1
        out.append((m.group(1), m.group(2).strip(), src[j:k]))
    return out


def functions(src):
    """[(name, params source, return type source, body source incl. braces, preceding attributes)]"""
    out = []
    for m in FN_RE.finditer(src):
        p0 = m.end() - 1
        p1 = find_matching(src, p0, "(", ")")
        params = src[p0 + 1:p1]
        b0 = src.find("{", p1)
        semi = src.find(";", p1)
        if b0 < 0 or (0 <= semi < b0 and "where" not in src[p1:semi]):
            continue  # trait method declaration without body
        header = src[p1 + 1:b0]
        ret = ""
        hm = re.search(r"->\s*(.+?)\s*(?:where\b.*)?$", header, re.S)
        if hm:
            ret = hm.group(1).strip()
        b1 = find_matching(src, b0)
        out.append((m.group(1), params, ret, src[b0:b1 + 1], m.start()))
    return out


def function_where(src, start):
    """source of the `where` clause (or "") of the function whose FN_RE match starts at `start`"""
    m = FN_RE.match(src, start)
    if not m:
        raise ParseError("no function at offset %d" % start)
    p1 = find_matching(src, m.end() - 1, "(", ")")
    b0 = src.find("{", p1)
    hm = re.search(r"\bwhere\b(.*)$", src[p1 + 1:b0], re.S)
    return " ".join(hm.group(1).split()) if hm else ""


IMPL_RE = re.compile(r"\bimpl\b\s*(?:<[^>{]*>)?\s*([^{;]*?)\s*\{", re.S)


def impl_blocks(src):
    """[(trait or None, type name, body source incl. braces)] for every `impl [Trait for] Type[<..>] [where ..] {`"""
    out = []
    for m in IMPL_RE.finditer(src):
        header = re.sub(r"\bwhere\b.*$", "", m.group(1), flags=re.S).strip()
        hm = re.fullmatch(r"(?:([A-Za-z_][A-Za-z0-9_:]*(?:<[^{]*?>)?)\s+for\s+)?([A-Z][A-Za-z0-9_]*)\s*(?:<[^{]*>)?", header)
        if not hm:
            continue
        trait = hm.group(1)
        if trait is not None:
            trait = re.sub(r"<.*$", "", trait, flags=re.S).split("::")[-1]
        b0 = m.end() - 1
        out.append((trait, hm.group(2), src[b0:find_matching(src, b0) + 1]))
    return out


def impl_blocks_any(src):
    """[(trait or None, type name, body incl. braces, header source `impl .. ` up to the brace)] for every impl block,
    also for lower-case (primitive) type names; used for the generic Serializable impls"""
    out = []
    for m in re.finditer(r"\bimpl\b[^{;]*\{", src):
        header = src[m.start():m.end() - 1].strip()
        h = re.sub(r"\bwhere\b.*$", "", header, flags=re.S).strip()
        hm = re.fullmatch(r"impl\s*(?:<[^>]*>)?\s*(?:([A-Za-z_][A-Za-z0-9_:]*)\s+for\s+)?([A-Za-z_][A-Za-z0-9_]*)\s*(?:<[^{]*>)?", h)
        if not hm:
            raise ParseError("unsupported impl header %r" % " ".join(header.split()))
        b0 = m.end() - 1
        out.append((hm.group(1), hm.group(2), src[b0:find_matching(src, b0) + 1], header))
    return out


def self_kind(params_src):
    """'static' | 'ref' (&self) | 'mut' (&mut self) | 'move' (self / mut self)"""
    parts = [x.strip() for x in split_top(params_src, ",")]
    first = " ".join(parts[0].split()) if parts else ""
    if re.fullmatch(r"&\s*('[a-z_]+\s+)?self", first):
        return "ref"
    if re.fullmatch(r"&\s*('[a-z_]+\s+)?mut self", first):
        return "mut"
    if first in ("self", "mut self"):
        return "move"
    return "static"


def typed_params(params_src):
    """[(name, type source)] of the non-self parameters"""
    out = []
    for part in split_top(params_src, ","):
        part = " ".join(part.split())
        if not part or re.fullmatch(r"(&\s*('[a-z_]+\s+)?(mut\s+)?|mut\s+)?self", part):
            continue
        m = re.match(r"(?:mut\s+)?([a-z_][a-z0-9_]*)\s*:\s*(.+)$", part)
        if not m:
            raise ParseError("unsupported parameter %r" % part)
        out.append((m.group(1), m.group(2).strip()))
    return out


def parse_fn_body(body_src):
    p = Parser(tokenize(body_src))
    blk = p.parse_block()
    if p.peek()[0] != "eof":
        raise ParseError("trailing tokens after function body")
    return blk


def parse_const_expr(src):
    p = Parser(tokenize(src))
    e = p.parse_expr()
    if p.peek()[0] != "eof":
        raise ParseError("trailing tokens after constant initializer: %r" % (p.peek(),))
    return e


def param_names(params_src):
    names = []
    for part in split_top(params_src, ","):
        part = part.strip()
        if not part or part in ("&self", "self", "mut self", "&mut self"):
            continue
        m = re.match(r"(?:mut\s+)?([a-z_][a-z0-9_]*)\s*:", part)
        if not m:
            raise ParseError("unsupported parameter %r" % part)
        names.append(m.group(1))
    return names


def split_top(s, sep):
    out, depth, cur = [], 0, ""
    for ch in s:
        if ch in "([{<":
            depth += 1
        elif ch in ")]}>":
            depth -= 1
        if ch == sep and depth == 0:
            out.append(cur)
            cur = ""
        else:
            cur += ch
    if cur.strip():
        out.append(cur)
    return out
